"""Environment stubs installed by module-global shadowing (DESIGN 3.5).

Each stub keeps the documented contract of the builtin it replaces and is part
of every claim made with it.  In concrete (replay / cross-check) mode none of
these is installed except the I/O doubles that stand for real files."""
import builtins
import struct as _struct
import sys

from . import tokens
from .core import LookupProxy, SymBool, SymInt, Unmodelled, sym_ite


def _is_intlike(x):
    return isinstance(x, (int, SymInt)) and not isinstance(x, SymBool)


def _check_byte(b):
    if isinstance(b, SymInt):
        if not (0 <= b <= 255):     # forks
            raise ValueError('byte must be in range(0, 256)')
        return b
    if isinstance(b, bool):
        return int(b)
    if isinstance(b, int):
        if not 0 <= b <= 255:
            raise ValueError('byte must be in range(0, 256)')
        return b
    if hasattr(b, '__index__'):
        return _check_byte(b.__index__())
    raise TypeError("'%s' object cannot be interpreted as an integer" % type(b).__name__)


class SymByteArray(list):
    """bytearray over proxy items: same range/type errors as the builtin."""

    def __init__(self, src=None, *args):
        list.__init__(self)
        if src is None:
            return
        if isinstance(src, str):
            if not args:
                raise TypeError('string argument without an encoding')
            list.extend(self, src.encode(*args))
            return
        if isinstance(src, SymInt):
            src = src.__index__()
        if isinstance(src, int):
            if src < 0:
                raise ValueError('negative count')
            list.extend(self, [0] * src)
            return
        if isinstance(src, (bytes, builtins.bytearray)):
            list.extend(self, src)
            return
        for b in src:
            list.append(self, _check_byte(b))

    def append(self, b):
        list.append(self, _check_byte(b))

    def extend(self, it):
        if isinstance(it, (bytes, builtins.bytearray)):
            list.extend(self, it)
            return
        if isinstance(it, str):
            raise TypeError("can't extend bytearray with str")
        for b in it:
            list.append(self, _check_byte(b))

    def __setitem__(self, i, b):
        if isinstance(i, slice):
            list.__setitem__(self, i, [_check_byte(x) for x in b])
        else:
            list.__setitem__(self, i, _check_byte(b))

    def __getitem__(self, i):
        r = list.__getitem__(self, i)
        if isinstance(i, slice):
            out = SymByteArray()
            list.extend(out, r)
            return out
        return r

    def __add__(self, o):
        out = SymByteArray()
        list.extend(out, self)
        out.extend(o)
        return out

    def __iadd__(self, o):
        self.extend(o)
        return self

    def concrete(self):
        return builtins.bytearray(int(b) for b in self)

    def decode(self, *a, **k):
        return self.concrete().decode(*a, **k)

    def isascii(self):
        for b in self:
            if not (b < 128):        # forks on symbolic items
                return False
        return True

    def hex(self, *a):
        return self.concrete().hex(*a)

    # -- the strip family and prefix/suffix tests (each item comparison forks on symbolic items)
    @staticmethod
    def _strip_set(chars):
        if chars is None:
            return list(b' \t\n\r\x0b\x0c')
        return list(chars)

    def _stripped(self, chars, left, right):
        cs = self._strip_set(chars)
        items = list(self)
        if right:
            while items and any(bool(items[-1] == c) for c in cs):
                items.pop()
        if left:
            while items and any(bool(items[0] == c) for c in cs):
                items.pop(0)
        out = type(self)()
        list.extend(out, items)
        return out

    def rstrip(self, chars=None):
        return self._stripped(chars, False, True)

    def lstrip(self, chars=None):
        return self._stripped(chars, True, False)

    def strip(self, chars=None):
        return self._stripped(chars, True, True)

    def startswith(self, prefix):
        prefix = list(prefix)
        return len(self) >= len(prefix) and all(bool(a == b) for a, b in zip(self, prefix))

    def endswith(self, suffix):
        suffix = list(suffix)
        n = len(suffix)
        return len(self) >= n and all(bool(a == b) for a, b in zip(list(self)[len(self) - n:], suffix))

    def __getattr__(self, name):
        if hasattr(builtins.bytearray, name):
            raise Unmodelled('bytearray.%s on a buffer of proxy items is not modelled' % name)
        raise AttributeError(name)

    def __eq__(self, o):
        if isinstance(o, (bytes, builtins.bytearray)):
            o = list(o)
        if isinstance(o, list):
            if len(o) != len(self):
                return False
            for a, b in zip(self, o):
                if not (a == b):
                    return False
            return True
        return NotImplemented

    def __ne__(self, o):
        r = self.__eq__(o)
        return r if r is NotImplemented else not r

    __hash__ = None

    @classmethod
    def fromhex(cls, text):
        out = cls()
        if tokens.has_token(text):
            list.extend(out, tokens.fromhex_items(text))
        else:
            list.extend(out, builtins.bytearray.fromhex(text))
        return out

    def __repr__(self):
        return 'SymByteArray(%s)' % list.__repr__(self)


class SymBytes(SymByteArray):
    """Result of SymFile.read(): an immutable-looking byte string."""

    def __repr__(self):
        return 'SymBytes(%s)' % list.__repr__(self)


def sym_ord(x):
    if isinstance(x, SymByteArray):
        if len(x) != 1:
            raise TypeError('ord() expected a character, but string of length %d found' % len(x))
        return list.__getitem__(x, 0)
    return builtins.ord(x)


class SymRange:
    """range(n) for symbolic n: iteration forks on `i < n` at every step, so a
    loop that fails after k steps costs k+2 paths however large n may be."""

    def __init__(self, n):
        self.n = n

    def __iter__(self):
        i = 0
        while i < self.n:       # forks
            yield i
            i += 1

    def __len__(self):
        return self.n.__index__()


class RangeProxy:
    """A concrete range whose membership test understands proxies: `x in range(a, b)` with a symbolic integer x
    is two comparisons (at most three paths) instead of one equality fork per element.  Everything else is the
    real range object."""

    def __init__(self, r):
        self.r = r

    def __contains__(self, v):
        r = self.r
        if isinstance(v, SymInt) and len(r) and r.step in (1, -1):
            lo, hi = (r[0], r[-1]) if r.step == 1 else (r[-1], r[0])
            return bool(v >= lo) and bool(v <= hi)
        if isinstance(v, (SymInt, SymBool)) or type(v).__name__ in ('SymReal',):
            return any(bool(v == i) for i in r)
        return v in r

    def __iter__(self):
        return iter(self.r)

    def __reversed__(self):
        return reversed(self.r)

    def __len__(self):
        return len(self.r)

    def __bool__(self):
        return bool(self.r)

    def __getitem__(self, i):
        if isinstance(i, SymInt):
            i = i.__index__()
        x = self.r[i]
        return RangeProxy(x) if isinstance(x, builtins.range) else x

    def __eq__(self, o):
        return self.r == (o.r if isinstance(o, RangeProxy) else o)

    def __ne__(self, o):
        return not self == o

    def __hash__(self):
        return hash(self.r)

    def __repr__(self):
        return repr(self.r)

    def index(self, v):
        return self.r.index(v.__index__() if isinstance(v, SymInt) else v)

    def count(self, v):
        return 1 if v in self else 0

    start = property(lambda self: self.r.start)
    stop = property(lambda self: self.r.stop)
    step = property(lambda self: self.r.step)


def sym_range(*args):
    if any(isinstance(a, SymInt) for a in args):
        if len(args) == 1:
            lo, hi = args[0].rng()
            if lo == hi:
                return RangeProxy(builtins.range(lo))
            return SymRange(args[0])
        return RangeProxy(builtins.range(*[a.__index__() if isinstance(a, SymInt) else a for a in args]))
    return RangeProxy(builtins.range(*args))


class SymFile:
    """In-memory binary file over proxy items.  `limit`: optional (symbolic)
    number of bytes that exist - reads beyond it come back short (EOF)."""

    def __init__(self, items=(), limit=None):
        self.items = list(items)
        self.pos = 0
        self.limit = limit
        self.closed = False

    def write(self, data):
        if isinstance(data, str):
            raise TypeError("a bytes-like object is required, not 'str'")
        if isinstance(data, (bytes, builtins.bytearray)):
            self.items.extend(data)
        else:
            self.items.extend(list(data))
        return len(data)

    def _avail(self):
        n = len(self.items) - self.pos
        return n

    def read(self, size=-1):
        if isinstance(size, SymInt):
            size = size.__index__()
        avail = self._avail()
        if size is None or size < 0 or size > avail:
            size = avail
        if self.limit is not None:
            k = 0
            while k < size and bool(self.pos + k < self.limit):
                k += 1
            size = k
        out = SymBytes()
        list.extend(out, self.items[self.pos:self.pos + size])
        self.pos += size
        return out

    def tell(self):
        return self.pos

    def seek(self, pos, whence=0):
        if whence == 0:
            self.pos = pos
        elif whence == 1:
            self.pos += pos
        else:
            self.pos = len(self.items) + pos
        return self.pos

    def flush(self):
        pass

    def close(self):
        self.closed = True

    def __enter__(self):
        return self

    def __exit__(self, *a):
        self.close()
        return False

    def getvalue(self):
        return list(self.items)

    def readable(self):
        return True

    def writable(self):
        return True

    def seekable(self):
        return True

    def __getattr__(self, name):
        raise Unmodelled('file.%s is not modelled by the in-memory file double' % name)


# --------------------------------------------------------------------------
# struct
# --------------------------------------------------------------------------
_SIZES = {'b': 1, 'B': 1, 'h': 2, 'H': 2, 'i': 4, 'I': 4, 'l': 4, 'L': 4, 'q': 8, 'Q': 8}


def _parse_fmt(fmt):
    if isinstance(fmt, bytes):
        fmt = fmt.decode()
    order = '@'
    if fmt and fmt[0] in '@=<>!':
        order, fmt = fmt[0], fmt[1:]
    out = []
    num = ''
    for c in fmt:
        if c.isdigit():
            num += c
            continue
        if c.isspace():
            continue
        n = int(num) if num else 1
        num = ''
        if c == 's':
            out.append(('s', n))
        elif c in _SIZES:
            out.extend([(c, _SIZES[c])] * n)
        elif c == 'x':
            out.append(('x', n))
        else:
            raise Unmodelled('struct format %r' % c)
    return order, out


class SymStruct:
    """struct.pack/unpack over proxy items (standard sizes; big-endian '>' / '!'
    or single-item native formats, which is all mido uses)."""
    error = _struct.error
    calcsize = staticmethod(_struct.calcsize)

    @staticmethod
    def _all_concrete(vals):
        for v in vals:
            if isinstance(v, SymInt):
                return False
            if isinstance(v, (list, tuple)) and not isinstance(v, (bytes, builtins.bytearray)):
                if any(isinstance(x, SymInt) for x in v):
                    return False
        return True

    @classmethod
    def pack(cls, fmt, *vals):
        if cls._all_concrete(vals):
            vals = [bytes(v) if isinstance(v, SymByteArray) else v for v in vals]
            out = SymBytes()
            list.extend(out, _struct.pack(fmt, *vals))
            return out
        order, items = _parse_fmt(fmt)
        big = order in '>!' or (order in '@=' and len(items) == 1 and items[0][1] == 1)
        if not big and order in '@=' and sys.byteorder == 'little':
            little = True
        elif order == '<':
            little = True
        else:
            little = False
        if order == '@' and len(items) > 1:
            raise Unmodelled('native-aligned multi-item struct format')
        if len(vals) != len([i for i in items if i[0] != 'x']):
            raise _struct.error('pack expected %d items for packing (got %d)' % (len(items), len(vals)))
        out = SymBytes()
        vi = 0
        for c, n in items:
            if c == 'x':
                list.extend(out, [0] * n)
                continue
            v = vals[vi]
            vi += 1
            if c == 's':
                b = list(v)[:n]
                b += [0] * (n - len(b))
                list.extend(out, b)
                continue
            if not _is_intlike(v):
                raise _struct.error('required argument is not an integer')
            bits = 8 * n
            if c.islower():
                lo, hi = -(1 << (bits - 1)), (1 << (bits - 1)) - 1
            else:
                lo, hi = 0, (1 << bits) - 1
            if not (lo <= v <= hi):      # forks
                raise _struct.error("'%s' format requires %d <= number <= %d" % (c, lo, hi))
            if c.islower():
                v = sym_ite(v < 0, v + (1 << bits), v)
            bs = [(v >> (8 * k)) & 0xff for k in range(n)]
            if not little:
                bs.reverse()
            list.extend(out, bs)
        return out

    @classmethod
    def unpack(cls, fmt, data):
        if isinstance(data, (bytes, builtins.bytearray)) or cls._all_concrete([list(data)]):
            return _struct.unpack(fmt, bytes(bytearray_concrete(data)))
        order, items = _parse_fmt(fmt)
        total = sum(n for _, n in items)
        if len(data) != total:
            raise _struct.error('unpack requires a buffer of %d bytes' % total)
        if order == '@' and len(items) > 1:
            raise Unmodelled('native-aligned multi-item struct format')
        little = order == '<' or (order in '@=' and sys.byteorder == 'little')
        out = []
        pos = 0
        data = list(data)
        for c, n in items:
            chunk = data[pos:pos + n]
            pos += n
            if c == 'x':
                continue
            if c == 's':
                if all(isinstance(b, int) for b in chunk):
                    out.append(bytes(chunk))
                else:
                    s = SymBytes()
                    list.extend(s, chunk)
                    out.append(s)
                continue
            if little:
                chunk = chunk[::-1]
            v = 0
            for b in chunk:
                v = v * 256 + b
            bits = 8 * n
            if c.islower():
                v = sym_ite(v >= (1 << (bits - 1)), v - (1 << bits), v) if isinstance(v, SymInt) \
                    else (v - (1 << bits) if v >= (1 << (bits - 1)) else v)
            out.append(v)
        return tuple(out)


def bytearray_concrete(data):
    return builtins.bytearray(int(b) for b in data)


# --------------------------------------------------------------------------
# installation
# --------------------------------------------------------------------------
_INSTALLED = []        # (module dict, name, had, old)
_PROXIES = {}          # id(real table) -> LookupProxy


def _set(mod, name, value):
    d = vars(mod)
    _INSTALLED.append((d, name, name in d, d.get(name)))
    d[name] = value


def noop(*a, **k):
    return None


BUILTIN_SHADOWS = {
    'mido.midifiles.midifiles': {'bytearray': SymByteArray, 'ord': sym_ord, 'range': sym_range,
                                 'struct': SymStruct},
    'mido.midifiles.meta': {'bytearray': SymByteArray, 'range': sym_range, 'struct': SymStruct},
    'mido.messages.messages': {'bytearray': SymByteArray},
    'mido.messages.strings': {'int': tokens.sym_int, 'float': tokens.sym_float},
    'mido.sockets': {'int': tokens.sym_int, 'ord': sym_ord, 'bytearray': SymByteArray},
    'mido.ports': {'bytearray': SymByteArray},
    'mido.syx': {'bytearray': SymByteArray},
    'mido.midifiles.units': {'int': tokens.sym_int},
    # (not needed by the pinned code; keeps the checks fast if these modules start to buffer in bytearrays)
    'mido.tokenizer': {'bytearray': SymByteArray},
    'mido.parser': {'bytearray': SymByteArray},
    'mido.messages.decode': {'bytearray': SymByteArray},
    'mido.messages.encode': {'bytearray': SymByteArray},
}


def mido_modules():
    return {k: v for k, v in sys.modules.items()
            if (k == 'mido' or k.startswith('mido.')) and v is not None}


def install(extra=None):
    """Install table proxies and builtin shadows into every loaded mido module."""
    uninstall()
    mods = mido_modules()
    for mname, mod in mods.items():
        for name, val in list(vars(mod).items()):
            if name.startswith('__'):
                continue
            if isinstance(val, (dict, set, frozenset)) and not isinstance(val, LookupProxy):
                if val and any(isinstance(k, int) and not isinstance(k, bool) for k in val):
                    p = _PROXIES.get(id(val))
                    if p is None or p.d is not val:
                        p = LookupProxy(val)
                        _PROXIES[id(val)] = p
                    _set(mod, name, p)
    # module-level byte buffers (a reused bytearray) get a proxy-capable stand-in, fresh on every path
    for mname, mod in mods.items():
        for name, val in list(vars(mod).items()):
            if type(val) is builtins.bytearray and not name.startswith('__'):
                _set(mod, name, SymByteArray(_SNAP_BUFFERS.get((mname, name), bytes(val))))
    # range: membership of a symbolic integer in a range is decided by two comparisons (every mido module; also
    # range objects kept at module level)
    for mname, mod in mods.items():
        for name, val in list(vars(mod).items()):
            if type(val) is builtins.range and not name.startswith('__'):
                _set(mod, name, RangeProxy(val))
        if 'range' not in vars(mod):
            _set(mod, 'range', sym_range)
    for mname, shadows in BUILTIN_SHADOWS.items():
        mod = mods.get(mname)
        if mod is None:
            continue
        for name, val in shadows.items():
            _set(mod, name, val)
    for (mname, name), val in (extra or {}).items():
        mod = mods.get(mname)
        if mod is not None:
            _set(mod, name, val)


def uninstall():
    while _INSTALLED:
        d, name, had, old = _INSTALLED.pop()
        if had:
            d[name] = old
        else:
            d.pop(name, None)


_SNAPSHOT = {}
_SNAP_BUFFERS = {}


def snapshot_globals():
    """Remember every simple module-level global of mido.* (path isolation)."""
    _SNAPSHOT.clear()
    _SNAP_BUFFERS.clear()
    for mname, mod in mido_modules().items():
        for name, val in vars(mod).items():
            if type(val) is builtins.bytearray and not name.startswith('__'):
                _SNAP_BUFFERS[(mname, name)] = bytes(val)
    for mname, mod in mido_modules().items():
        for name, val in vars(mod).items():
            if name.startswith('__'):
                continue
            if val is None or isinstance(val, (str, int, float, bool)):
                _SNAPSHOT[(mname, name)] = val


def restore_globals():
    mods = mido_modules()
    for (mname, name), val in _SNAPSHOT.items():
        mod = mods.get(mname)
        if mod is not None and vars(mod).get(name, val) is not val:
            vars(mod)[name] = val
    for (mname, name), content in _SNAP_BUFFERS.items():
        mod = mods.get(mname)
        buf = vars(mod).get(name) if mod is not None else None
        if type(buf) is builtins.bytearray and bytes(buf) != content:
            buf[:] = content


# --------------------------------------------------------------------------
# list with a symbolic-length tail (C09 framing harness)
# --------------------------------------------------------------------------
class SymList:
    """Read-only sequence: concrete `head` items followed by `n` copies of
    `fill`, n symbolic.  len() of it must go through the shadowed `len`."""

    def __init__(self, head, n, fill=0, start=0):
        self.head = list(head)
        self.n = n
        self.fill = fill
        self.start = start      # offset of this view in the original sequence

    def sym_len(self):
        return len(self.head) + self.n

    def __len__(self):
        raise Unmodelled('builtin len() of a symbolic-length list (module lacks the len shadow)')

    def __getitem__(self, i):
        if isinstance(i, slice):
            if i.step not in (None, 1):
                raise Unmodelled('SymList slice with a step')
            a = 0 if i.start is None else i.start
            if isinstance(a, SymInt):
                a = a.__index__()
            if a < 0:
                raise Unmodelled('SymList negative slice start')
            if i.stop is None:
                if a <= len(self.head):
                    return SymList(self.head[a:], self.n, self.fill, self.start + a)
                # a beyond the head: tail of length max(n - (a - len(head)), 0)
                k = a - len(self.head)
                if bool(self.n >= k):
                    return SymList([], self.n - k, self.fill, self.start + a)
                return SymList([], 0, self.fill, self.start + a)
            b = i.stop
            if isinstance(b, SymInt):
                b = b.__index__()
            if b < 0:
                raise Unmodelled('SymList negative slice stop')
            return [self[j] for j in builtins.range(a, b) if bool(j < self.sym_len())]
        if isinstance(i, SymInt):
            i = i.__index__()
        if i < 0:
            raise Unmodelled('SymList negative index')
        if i < len(self.head):
            return self.head[i]
        if bool(i < self.sym_len()):
            return self.fill
        raise IndexError('list index out of range')

    def __iter__(self):
        yield from self.head
        i = 0
        while bool(i < self.n):
            yield self.fill
            i += 1

    def concrete(self, n):
        return self.head + [self.fill] * n


def sym_len(x):
    if isinstance(x, SymList):
        return x.sym_len()
    return builtins.len(x)


# --------------------------------------------------------------------------
# in-memory file system for modules that call open() themselves (syx.py)
# --------------------------------------------------------------------------
class TextBytes:
    """What reading a text-mode file in binary gives, when the text holds
    number tokens: only decode(), len() and [0] are supported."""

    def __init__(self, text):
        self.text = text

    def decode(self, *a):
        return self.text

    def isascii(self):
        return all(ord(c) < 128 or tokens.OPEN <= c <= '\uf8ff' for c in self.text)    # tokens render as ASCII digits

    def __len__(self):
        return len(self.text)

    def __getitem__(self, i):
        c = self.text[i]
        if tokens.OPEN <= c <= '':
            return builtins.ord('0')          # a token renders as hex digits: some ASCII digit
        return builtins.ord(c)


class FakeFile:
    def __init__(self, fs, name, mode):
        self.fs, self.name, self.mode = fs, name, mode
        self.closed = False
        self.pos = 0
        if 'w' in mode:
            fs.files[name] = '' if 'b' not in mode else []

    def write(self, data):
        if 'b' in self.mode:
            if isinstance(data, str):
                raise TypeError("a bytes-like object is required, not 'str'")
            self.fs.files[self.name] = self.fs.files[self.name] + list(data)
        else:
            if not isinstance(data, str):
                raise TypeError('write() argument must be str, not %s' % type(data).__name__)
            self.fs.files[self.name] += data
        return len(data)

    def read(self, n=-1):
        """Reads from the current position (a file position is kept, so block-wise readers terminate)."""
        c = self.fs.files[self.name]
        if n is not None and n >= 0:
            chunk = c[self.pos:self.pos + n]
        else:
            chunk = c[self.pos:]
        self.pos += len(chunk)
        c = chunk
        if isinstance(c, str):
            if 'b' in self.mode:
                if tokens.has_token(c):
                    return TextBytes(c)
                return c.encode('latin1')
            return c
        if all(isinstance(b, int) for b in c):
            return bytes(c) if 'b' in self.mode else bytes(c).decode('latin1')
        out = SymBytes()
        list.extend(out, c)
        return out

    def close(self):
        self.closed = True

    def flush(self):
        pass

    def __enter__(self):
        return self

    def __exit__(self, *a):
        self.close()
        return False

    def __getattr__(self, name):
        raise Unmodelled('file.%s is not modelled by the in-memory file double' % name)


class FakeFS:
    def __init__(self):
        self.files = {}
        self.opened = []

    def open(self, name, mode='r', *a, **k):
        if 'r' in mode and name not in self.files:
            raise FileNotFoundError(name)
        f = FakeFile(self, name, mode)
        self.opened.append(f)
        return f
