"""Check driver: `python -m pysym.runner <property> quick|thorough [options]`.

Builds the job list of /verif/harness/<property>.py, explores every job in a
pool of worker processes (mido imported fresh from the working tree named by
PYTHONPATH, normally /repo), aggregates the verdict, writes
/verif/evidence/<property>.json and prints VIOLATION / KNOWN-FINDING /
INCONCLUSIVE lines.  Exit 0 HOLDS, 1 VIOLATION, 2 INCONCLUSIVE."""
import argparse
import fnmatch
import hashlib
import importlib
import json
import multiprocessing
import os
import sys
import time

HERE = os.path.dirname(os.path.dirname(os.path.abspath(__file__)))
sys.setrecursionlimit(20000)


def repo_root():
    import mido
    return os.path.dirname(os.path.dirname(os.path.abspath(mido.__file__)))


def load_known(prop):
    with open(os.path.join(HERE, 'known_findings.json')) as f:
        data = json.load(f)
    out = []
    for i, e in enumerate(data.get('findings', [])):
        if e.get('property') == prop:
            e = dict(e)
            e.setdefault('id', '%s#%d' % (prop, i))
            out.append(e)
    return out


def _worker(arg):
    modname, idx, tier, known = arg
    from . import cx as cxm
    mod = importlib.import_module(modname)
    jobs = mod.JOBS(tier)
    fn, params, opts = jobs[idx]
    opts = {k: v for k, v in opts.items() if k != 'cost'}
    hdef = fn.harness
    kn = [k for k in known if fnmatch.fnmatch(hdef.name, k.get('harness', '*'))
          and all(params.get(a) == b for a, b in (k.get('params') or {}).items())]
    # watchdog: a job that does not come back (e.g. the code under analysis loops forever) is cut
    import signal
    default_deadline = 600 if tier == 'quick' else 1800
    limit = int(opts.get('deadline_s', default_deadline)) + 60

    def _alarm(signum, frame):
        raise cxm.Budget('job exceeded its wall-clock limit of %d s (the code under analysis may not terminate)' % limit)
    try:
        signal.signal(signal.SIGALRM, _alarm)
        signal.alarm(limit)
    except (ValueError, OSError):
        pass
    opts.setdefault('deadline_s', default_deadline)
    try:
        res = cxm.run_job(hdef, params, known=kn, repo_prefix=repo_root(), **opts)
    except BaseException as e:   # noqa: BLE001
        import traceback
        res = cxm.JobResult(hdef.name, params)
        res.status = 'INCONCLUSIVE'
        res.reason = 'worker crashed: %s' % ''.join(traceback.format_exception(type(e), e, e.__traceback__)[-4:])
    try:
        signal.alarm(0)
    except (ValueError, OSError):
        pass
    return idx, res.__dict__


def source_hash(root):
    h = hashlib.sha256()
    n = 0
    for d, _, files in sorted(os.walk(os.path.join(root, 'mido'))):
        for f in sorted(files):
            if f.endswith('.py'):
                with open(os.path.join(d, f), 'rb') as fh:
                    h.update(fh.read())
                n += 1
    return h.hexdigest()[:16], n


def replay(path):
    from . import cx as cxm
    with open(path) as f:
        r = json.load(f)
    mod = importlib.import_module('harness.' + r['property'])
    fn = getattr(mod, r['harness'])
    from . import stubs
    import mido  # noqa: F401
    stubs.snapshot_globals()
    ccx, escaped = cxm.run_concrete(fn.harness, r['params'], r['model'], trace=True)
    print('replay of %s harness=%s params=%r' % (r['property'], r['harness'], r['params']))
    print('  inputs: %r' % (r['model'],))
    for k, v in ccx.obs:
        print('  observed %s = %r' % (k, cxm.norm(v)))
    print('  failed obligations: %r  escaped: %r' % (ccx.failed, escaped))
    bad = (r['label'] in ccx.failed) or (escaped == r['label'])
    if bad:
        print('VIOLATION property=%s replay=%s' % (r['property'], path))
        return 1
    print('replay does not fail on this tree')
    return 0


def main(argv=None):
    ap = argparse.ArgumentParser()
    ap.add_argument('prop')
    ap.add_argument('tier', nargs='?', default=os.environ.get('VERIF_TIER', 'quick'))
    ap.add_argument('--replay')
    ap.add_argument('--only', help='glob over harness names / job labels')
    ap.add_argument('--jobs', type=int, default=int(os.environ.get('VERIF_JOBS', '16')))
    ap.add_argument('--no-evidence', action='store_true')
    ap.add_argument('-v', action='store_true')
    a = ap.parse_args(argv)
    if a.replay:
        return replay(a.replay)
    t0 = time.time()
    seed = int(os.environ.get('VERIF_SEED', '0') or 0)
    modname = 'harness.' + a.prop
    mod = importlib.import_module(modname)
    import mido  # noqa: F401  (fresh from the working tree on PYTHONPATH)
    root = repo_root()
    jobs = mod.JOBS(a.tier)
    idxs = list(range(len(jobs)))
    if a.only:
        idxs = [i for i in idxs if fnmatch.fnmatch(jobs[i][0].harness.name, a.only)
                or fnmatch.fnmatch(job_label(jobs[i]), a.only)]
    if not idxs:
        print('INCONCLUSIVE property=%s reason=no job selected' % a.prop)
        return 2
    known = load_known(a.prop)
    # heavy jobs first; VERIF_SEED only permutes ties
    import random
    rnd = random.Random(seed)
    order = sorted(idxs, key=lambda i: (-jobs[i][2].get('cost', 1), rnd.random()))
    args = [(modname, i, a.tier, known) for i in order]
    for j in jobs:
        j[2].pop('cost', None)
    results = {}
    nproc = max(1, min(a.jobs, len(args)))
    ctx = multiprocessing.get_context('fork')
    if nproc == 1:
        it = map(_worker, args)
        for idx, r in it:
            results[idx] = r
            if a.v:
                print('  job %s: %s %s' % (job_label(jobs[idx]), r['status'], r['reason'][:200]), flush=True)
    else:
        n_inc = 0
        with ctx.Pool(nproc, maxtasksperchild=1) as pool:
            for idx, r in pool.imap_unordered(_worker, args, chunksize=1):
                results[idx] = r
                if a.v:
                    print('  job %s: %s paths=%s %.1fs %s' % (
                        job_label(jobs[idx]), r['status'], r['stats'].get('paths'),
                        r['wall_s'], r['reason'][:300]), flush=True)
                if r['status'] == 'INCONCLUSIVE':
                    n_inc += 1
                # the engine cannot model this tree (e.g. after a rewrite towards C-level byte handling):
                # stop early - the verdict is INCONCLUSIVE whatever the remaining jobs say, unless a
                # violation has been confirmed already (then keep going: it is reported)
                if n_inc >= 40 and not any(x['status'] == 'VIOLATION' for x in results.values()):
                    print('INCONCLUSIVE property=%s reason=%d jobs inconclusive so far: remaining %d jobs skipped'
                          % (a.prop, n_inc, len(args) - len(results)), flush=True)
                    pool.terminate()
                    break
    return finish(a, mod, jobs, results, known, root, seed, t0, partial=bool(a.only))


def job_label(job):
    fn, params, opts = job
    ps = ','.join('%s=%s' % (k, v) for k, v in params.items())
    return '%s[%s]' % (fn.harness.name, ps)


def finish(a, mod, jobs, results, known, root, seed, t0, partial=False):
    prop = a.prop
    status = 'HOLDS'
    reasons = []
    tot = dict(paths=0, forks=0, queries=0, sat=0, unsat=0, solver_s=0.0, checks=0,
               realisations=0, aborted=0, assumes=0)
    xchecks = replays = knife = 0
    hits = {}
    samples = []
    funcs = set()
    violations = []
    known_seen = {}
    per_harness = {}
    for idx, r in sorted(results.items()):
        fn, params, opts = jobs[idx]
        name = fn.harness.name
        for k in tot:
            tot[k] += r['stats'].get(k, 0)
        xchecks += r['xchecks']
        knife += r.get('knife_edge_paths', 0)
        replays += r['replays']
        h = hits.setdefault(name, {})
        for k, v in r['hits'].items():
            h[k] = h.get(k, 0) + v
        ph = per_harness.setdefault(name, dict(jobs=0, paths=0, queries=0, solver_s=0.0, wall_s=0.0,
                                               verdicts={}))
        ph['jobs'] += 1
        ph['paths'] += r['stats'].get('paths', 0)
        ph['queries'] += r['stats'].get('queries', 0)
        ph['solver_s'] = round(ph['solver_s'] + r['stats'].get('solver_s', 0.0), 3)
        ph['wall_s'] = round(ph['wall_s'] + r['wall_s'], 3)
        ph['verdicts'][r['status']] = ph['verdicts'].get(r['status'], 0) + 1
        for f in r['functions']:
            funcs.add('%s:%s' % tuple(f))
        if r['samples'] and len(samples) < 12:
            samples.append({'harness': job_label(jobs[idx]), **r['samples'][0]})
        for kid, m in r['known'].items():
            known_seen.setdefault(kid, (job_label(jobs[idx]), m))
        if r['status'] == 'VIOLATION':
            for v in r['violations']:
                violations.append((idx, v))
        elif r['status'] == 'INCONCLUSIVE':
            reasons.append('%s: %s' % (job_label(jobs[idx]), r['reason']))
    # vacuity: every declared obligation label reached on a feasible path
    if not partial:
        for idx in results:
            fn = jobs[idx][0]
            name = fn.harness.name
            for lab in fn.harness.labels:
                got = sum(v for k, v in hits.get(name, {}).items() if k == lab or fnmatch.fnmatch(k, lab))
                if got == 0:
                    msg = 'vacuity: obligation %s of harness %s was never reached' % (lab, name)
                    if msg not in reasons:
                        reasons.append(msg)
    outdir = os.path.join(HERE, 'out', 'replays')
    os.makedirs(outdir, exist_ok=True)
    lines = []
    seen = set()
    for n, (idx, v) in enumerate(violations):
        fn, params, opts = jobs[idx]
        key = (fn.harness.name, v['label'])
        if key in seen:
            continue
        seen.add(key)
        path = os.path.join(outdir, '%s_%s_%d.json' % (prop, fn.harness.name, n))
        with open(path, 'w') as f:
            json.dump({'property': prop, 'harness': fn.__name__, 'params': params,
                       'label': v['label'], 'model': v['model'], 'detail': v['detail']}, f, indent=1, default=str)
        lines.append('VIOLATION property=%s replay=%s' % (prop, path))
        lines.append('  harness=%s label=%s inputs=%s %s' % (
            job_label(jobs[idx]), v['label'], json.dumps(v['model'], default=str), v['detail'][:300].replace('\n', ' | ')))
    for k in known:
        if k['id'] in known_seen:
            where, m = known_seen[k['id']]
            print('KNOWN-FINDING: property=%s %s (reproduced by %s with %s)' % (
                prop, k['what'], where, json.dumps(m, default=str)))
        elif not partial:
            print('note: listed finding no longer reproduces: property=%s %s' % (prop, k['what']))
    if violations:
        status = 'VIOLATION'
    elif reasons:
        status = 'INCONCLUSIVE'
    for ln in lines:
        print(ln)
    if reasons:
        for r in reasons[:10]:
            print('INCONCLUSIVE property=%s reason=%s' % (prop, r[:600]))
    wall = time.time() - t0
    shash, nfiles = source_hash(root)
    bounds = getattr(mod, 'BOUNDS', {})
    ev = {
        'property_id': prop,
        'tier': a.tier if a.tier in ('quick', 'thorough') else 'quick',
        'seed': seed,
        'level': 'model_checking',
        'verdict': status,
        'coverage': {
            'states': tot['paths'],
            'transitions': tot['forks'],
            'traces_validated_against_impl': xchecks + replays,
            'samples': samples or [{'note': 'no path completed'}],
            'exhaustive': status == 'HOLDS',
            'explanation': 'states = feasible execution paths of the real mido code explored symbolically '
                           '(each stands for every input satisfying its path condition); transitions = solver-certified '
                           'forks; traces_validated = concrete re-executions on the unstubbed code (one witness per path '
                           'plus every counterexample).',
            'jobs': len(results),
            'solver_queries': tot['queries'], 'solver_sat': tot['sat'], 'solver_unsat': tot['unsat'],
            'solver_seconds': round(tot['solver_s'], 3),
            'obligation_checks': tot['checks'],
            'realisations_at_C_boundaries': tot['realisations'],
            'paths_cut_by_assumption': tot['aborted'],
            'paths_without_concrete_cross_check_knife_edge_of_a_real_comparison': knife,
            'obligation_hits': hits,
            'per_harness': per_harness,
            'functions_executed': sorted(funcs),
            'bounds': bounds.get(a.tier, bounds.get('quick', '')),
            'outside_the_claim': getattr(mod, 'OUTSIDE', ''),
            'source': {'root': root, 'py_files': nfiles, 'sha256_16': shash},
            'solver': 'z3 %s (python wheel), incremental, BitVec(64)/Int/Real' % _z3v(),
            'known_findings_reproduced': sorted(known_seen),
        },
        'assumptions': getattr(mod, 'ASSUMPTIONS', []),
        'wall_s': round(wall, 2),
        'violations': len(seen),
    }
    if not a.no_evidence and not partial:
        os.makedirs(os.path.join(HERE, 'evidence'), exist_ok=True)
        with open(os.path.join(HERE, 'evidence', prop + '.json'), 'w') as f:
            json.dump(ev, f, indent=1, default=str)
    print('%s property=%s tier=%s jobs=%d paths=%d forks=%d queries=%d solver_s=%.1f xchecks=%d wall=%.1fs' % (
        status, prop, a.tier, len(results), tot['paths'], tot['forks'], tot['queries'], tot['solver_s'],
        xchecks + replays, wall))
    return {'HOLDS': 0, 'VIOLATION': 1, 'INCONCLUSIVE': 2}[status]


def _z3v():
    import z3
    return z3.get_version_string()


if __name__ == '__main__':
    sys.exit(main())
