"""Stream-socket and select() doubles (DESIGN 3.5) for mido/sockets.py.

Model: a connection is a pair of endpoints.  Bytes written at one end are
readable at the other in the order written.  An endpoint's descriptor is
released only when the socket object AND every file object made from it with
makefile() are closed (CPython's socket._io_refs rule); the peer then reads
end-of-file once the buffered bytes are consumed, and writing to a released
peer raises BrokenPipeError(EPIPE).  A 'pause plan' can make select() report
"not readable" once before a given byte is delivered: that is how arbitrary
segmentation of the stream is expressed.  Validated against real
socket.socketpair() by harness C18.model_validation."""
import errno

AF_INET, SOCK_STREAM, SOL_SOCKET, SO_REUSEADDR = 2, 1, 1, 2
_TABLE = {}
_NEXT = [1000]


def reset():
    _TABLE.clear()
    _NEXT[0] = 1000


class Endpoint:
    """One end of a connection (shared by the socket object and its files)."""

    def __init__(self):
        self.fd = _NEXT[0]
        _NEXT[0] += 1
        _TABLE[self.fd] = self
        self.inbox = []          # bytes readable (items: ints or proxies)
        self.delivered = 0       # bytes handed to the reader so far
        self.pauses = None       # callable(index) -> bool : pause before this byte?
        self.paused_at = set()
        self.refs = 0            # open handles (socket + makefile objects)
        self.released = False
        self.peer = None
        self.listening = False
        self.backlog = []

    def handle_opened(self):
        self.refs += 1

    def handle_closed(self):
        self.refs -= 1
        if self.refs <= 0:
            self.released = True

    def readable(self):
        if self.listening:
            return bool(self.backlog)
        if self.inbox:
            i = self.delivered
            if self.pauses is not None and i not in self.paused_at:
                self.paused_at.add(i)
                if self.pauses(i):
                    return False
            return True
        return self.peer is None or self.peer.released      # EOF is "readable"


class FakeSockFile:
    def __init__(self, ep, mode):
        self.ep, self.mode = ep, mode
        self.closed = False
        ep.handle_opened()

    def read(self, n=1):
        if self.closed:
            raise ValueError('I/O operation on closed file')
        ep = self.ep
        if ep.released:
            raise OSError(errno.EBADF, 'Bad file descriptor')
        if not ep.inbox:
            if ep.peer is None or ep.peer.released:
                return b''
            raise BlockingIOError(errno.EAGAIN, 'read would block (the harness never reads an unreadable socket)')
        out = ep.inbox[:n]
        del ep.inbox[:n]
        ep.delivered += len(out)
        if all(isinstance(b, int) for b in out):
            return bytes(out)
        from .stubs import SymBytes
        r = SymBytes()
        list.extend(r, out)
        return r

    def write(self, data):
        if self.closed:
            raise ValueError('I/O operation on closed file')
        ep = self.ep
        if ep.released:
            raise OSError(errno.EBADF, 'Bad file descriptor')
        if ep.peer is None or ep.peer.released:
            raise BrokenPipeError(errno.EPIPE, 'Broken pipe')
        ep.peer.inbox.extend(list(data))
        return len(data)

    def flush(self):
        pass

    def close(self):
        if not self.closed:
            self.closed = True
            self.ep.handle_closed()


class FakeSocket:
    def __init__(self, family=AF_INET, type=SOCK_STREAM, ep=None):
        self.ep = ep or Endpoint()
        self.ep.handle_opened()
        self.closed = False
        self.bound = None

    # --- server side
    def setsockopt(self, *a):
        pass

    def setblocking(self, flag):
        pass

    def bind(self, addr):
        self.bound = addr

    def listen(self, backlog=1):
        self.ep.listening = True

    def accept(self):
        if not self.ep.backlog:
            raise BlockingIOError(errno.EAGAIN, 'accept would block')
        ep, addr = self.ep.backlog.pop(0)
        return FakeSocket(ep=ep), addr

    def connect(self, addr):
        raise ConnectionRefusedError(errno.ECONNREFUSED, 'no listener in the model')

    # --- both
    def fileno(self):
        return -1 if self.closed else self.ep.fd

    def makefile(self, mode='r', buffering=None, **kw):
        return FakeSockFile(self.ep, mode)

    def close(self):
        if not self.closed:
            self.closed = True
            self.ep.handle_closed()

    def send(self, data):
        return FakeSockFile.write(_Raw(self.ep), data)

    sendall = send

    def recv(self, n):
        if self.closed:
            raise OSError(errno.EBADF, 'Bad file descriptor')
        return FakeSockFile.read(_Raw(self.ep), n)

    def recv_into(self, buf, nbytes=0):
        data = self.recv(nbytes or len(buf))
        if not all(isinstance(b, int) for b in data):
            from .core import Unmodelled
            raise Unmodelled('recv_into a real buffer with symbolic bytes')
        buf[:len(data)] = bytes(data)
        return len(data)

    def shutdown(self, how):
        # both directions are treated alike: the peer reads end-of-file, writes to it fail
        self.ep.released = True

    def settimeout(self, t):
        pass

    def getsockname(self):
        return self.bound or ('0.0.0.0', 0)

    def getpeername(self):
        return ('peer', 0)

    def __getattr__(self, name):
        from .core import Unmodelled
        raise Unmodelled('socket.%s is not modelled by the harness double' % name)


class _Raw:
    closed = False

    def __init__(self, ep):
        self.ep = ep


def socketpair():
    a, b = Endpoint(), Endpoint()
    a.peer, b.peer = b, a
    return FakeSocket(ep=a), FakeSocket(ep=b)


def queue_connection(listener, addr=('client', 5000)):
    """A client connects to a listening FakeSocket; returns the client's socket."""
    a, b = Endpoint(), Endpoint()
    a.peer, b.peer = b, a
    listener.ep.backlog.append((a, addr))
    return FakeSocket(ep=b)


class _SocketModuleMeta(type):
    def __getattr__(cls, name):
        import socket as real
        v = getattr(real, name, None)
        if isinstance(v, int) or (isinstance(v, type) and issubclass(v, BaseException)):
            return v                       # constants and exception classes of the real module
        from .core import Unmodelled
        raise Unmodelled('socket.%s is not modelled by the harness double' % name)


class FakeSocketModule(metaclass=_SocketModuleMeta):
    AF_INET, SOCK_STREAM, SOL_SOCKET, SO_REUSEADDR = AF_INET, SOCK_STREAM, SOL_SOCKET, SO_REUSEADDR
    socket = FakeSocket
    error = OSError
    timeout = TimeoutError


class _SelectModuleMeta(type):
    def __getattr__(cls, name):
        from .core import Unmodelled
        raise Unmodelled('select.%s is not modelled by the harness double' % name)


class FakeSelectModule(metaclass=_SelectModuleMeta):
    error = OSError

    @staticmethod
    def select(rlist, wlist, xlist, timeout=None):
        out = []
        for item in rlist:
            fd = item if isinstance(item, int) else item.fileno()       # select() takes descriptors or objects with fileno()
            if fd == -1:
                raise ValueError('file descriptor cannot be a negative integer (-1)')
            ep = _TABLE.get(fd)
            if ep is None or ep.released:
                raise OSError(errno.EBADF, 'Bad file descriptor')
            if ep.readable():
                out.append(item)
        if wlist or xlist:
            from .core import Unmodelled
            raise Unmodelled('select() for writing / exceptional conditions is not modelled')
        return out, [], []
