"""Harness context API (DESIGN 3.8): a harness is written once against `cx` and
runs in symbolic mode (proxies + stubs, every path explored) and in concrete
mode (plain values from a model, real builtins) - the latter is the per-path
cross-check and the replay of every counterexample."""
import fnmatch
import sys
import time
import traceback

import z3

from . import stubs, tokens
from . import core
from .core import (Budget, EngineControl, Explorer, PathAbort, SymBool, SymInt,
                   Unmodelled, sym_and, sym_implies, sym_ite, sym_not, sym_or)


class Opaque:
    """Uninterpreted value that is merely passed through (a time, a name)."""
    __slots__ = ('tag',)

    def __init__(self, tag):
        self.tag = tag

    def __repr__(self):
        return tokens._new(self, 'r')

    def __format__(self, spec):
        return tokens._new(self, 'r' + spec if spec else 'r')

    def __str__(self):
        return tokens._new(self, 'r')

    __hash__ = object.__hash__

    def __eq__(self, o):
        return o is self

    def __ne__(self, o):
        return o is not self


class OpaqueReal(Opaque):
    """Opaque stand-in for a float time value: passes isinstance(x, Real)."""
    __slots__ = ()


import numbers  # noqa: E402
numbers.Real.register(OpaqueReal)


def opaque_value(tag):
    h = sum(ord(c) * (i + 1) for i, c in enumerate(tag)) % 9973
    return h + 0.3125


class ConcreteOpaqueFloat(float):
    """Concrete-mode stand-in for an opaque real: an ordinary float object."""
    tag = ''


class ConcreteOpaqueStr(str):
    tag = ''


class HarnessDef:
    def __init__(self, fn, labels, extra_stubs=None):
        self.fn = fn
        self.name = fn.__name__
        self.labels = list(labels)
        self.extra_stubs = extra_stubs


def harness(labels=(), extra_stubs=None):
    def deco(fn):
        fn.harness = HarnessDef(fn, labels, extra_stubs)
        return fn
    return deco


class Violation:
    def __init__(self, label, model, detail=''):
        self.label = label
        self.model = model
        self.detail = detail
        self.confirmed = None
        self.known = None


# --------------------------------------------------------------------------
# normalisation of observables
# --------------------------------------------------------------------------

def norm(v, ev=None, depth=0):
    """Plain-data image of an observable; `ev` evaluates proxies under a model."""
    if depth > 12:
        return '...'
    if isinstance(v, SymInt):
        return ev(v.e) if ev else ('sym', str(v.e))
    if isinstance(v, SymBool):
        return bool(ev(v.e)) if ev else ('sym', str(v.e))
    if isinstance(v, (OpaqueReal, ConcreteOpaqueFloat)):
        return opaque_value(v.tag)       # the same number in both modes (survives repr/eval)
    if isinstance(v, (Opaque, ConcreteOpaqueStr)):
        return 'opaque:%s' % v.tag
    if isinstance(v, bool) or v is None or isinstance(v, (int, str)):
        return v
    if isinstance(v, float):
        return v
    if isinstance(v, (bytes, bytearray)):
        return list(v)
    if isinstance(v, (list, tuple)) or type(v).__name__ in ('deque', 'SysexData'):
        return [norm(x, ev, depth + 1) for x in v]
    if isinstance(v, (set, frozenset)):
        return sorted((norm(x, ev, depth + 1) for x in v), key=repr)
    if isinstance(v, dict):
        return {str(k): norm(x, ev, depth + 1) for k, x in v.items()}
    if isinstance(v, BaseException):
        return 'exc:%s' % type(v).__name__
    if isinstance(v, type):
        return 'type:%s' % v.__name__
    from . import reals
    if isinstance(v, reals.SymReal):
        return reals.norm_real(v, ev)
    import fractions
    if isinstance(v, fractions.Fraction):
        return float(v)
    if hasattr(v, '__dict__'):
        return {'__class__': type(v).__name__,
                **{str(k): norm(x, ev, depth + 1) for k, x in vars(v).items()
                   if not k.startswith('_')}}
    return repr(v)


def approx_equal(a, b):
    """Equality of normalised observables, floats compared with tolerance."""
    if isinstance(a, float) or isinstance(b, float):
        try:
            fa, fb = float(a), float(b)
        except (TypeError, ValueError):
            return False
        if fa == fb:
            return True
        return abs(fa - fb) <= 1e-9 * max(1.0, abs(fa), abs(fb))
    if isinstance(a, list) and isinstance(b, list):
        return len(a) == len(b) and all(approx_equal(x, y) for x, y in zip(a, b))
    if isinstance(a, dict) and isinstance(b, dict):
        return a.keys() == b.keys() and all(approx_equal(a[k], b[k]) for k in a)
    return a == b


# --------------------------------------------------------------------------
# contexts
# --------------------------------------------------------------------------

class BaseCx:
    symbolic = False
    And = staticmethod(sym_and)
    Or = staticmethod(sym_or)
    Not = staticmethod(sym_not)
    Implies = staticmethod(sym_implies)
    ite = staticmethod(sym_ite)

    def __init__(self):
        self.obs = []            # (key, value)
        self.hits = {}
        self.violations = []
        self._auto = 0

    def hit(self, label):
        self.hits[label] = self.hits.get(label, 0) + 1

    def observe(self, key, value):
        self.obs.append((key, value))

    def reach(self, label):
        """Reachability witness: a feasible path got here."""
        self.hit(label)

    def eq(self, a, b):
        """Non-forking deep equality (a formula in symbolic mode)."""
        if isinstance(a, (SymInt, SymBool)) or isinstance(b, (SymInt, SymBool)):
            r = (a == b)
            return r
        if isinstance(a, (list, tuple)) and isinstance(b, (list, tuple)):
            if len(a) != len(b):
                return False
            return sym_and(*[self.eq(x, y) for x, y in zip(a, b)])
        if isinstance(a, dict) and isinstance(b, dict):
            if a.keys() != b.keys():
                return False
            return sym_and(*[self.eq(a[k], b[k]) for k in a])
        if isinstance(a, (bytes, bytearray)):
            a = list(a)
        if isinstance(b, (bytes, bytearray)):
            b = list(b)
        if isinstance(a, list) and isinstance(b, list):
            return self.eq(tuple(a), tuple(b))
        r = (a == b)
        return r

    def raises(self, fn, *allowed, label='exception'):
        """Call into the real code.  Returns (value, exception).  An exception
        outside `allowed` (Exception subclasses only) is a violation."""
        try:
            v = fn()
        except EngineControl:
            raise
        except Exception as e:   # noqa: BLE001
            self._auto += 1
            self.observe('raises#%d' % self._auto, 'exc:%s' % type(e).__name__)
            if not isinstance(e, allowed):
                self.fail('%s:%s' % (label, type(e).__name__),
                          detail=''.join(traceback.format_exception_only(type(e), e)).strip())
            else:
                self.hit(label)
            return None, e
        self._auto += 1
        self.observe('raises#%d' % self._auto, 'returned')
        self.hit(label)
        return v, None

    def all_of(self, it):
        return sym_and(*list(it))


class SymCx(BaseCx):
    symbolic = True

    def __init__(self, ex, known=()):
        BaseCx.__init__(self)
        self.ex = ex
        self.known = list(known)       # known-finding entries for this harness
        self.known_hits = {}
        self.suppressed = set()        # labels whose failure on this path is a listed finding

    # ---- inputs
    def int(self, name, lo, hi):
        ex = self.ex
        w = ex.width
        v = ex.declare(name, 'int', lambda: z3.BitVec(name, w) if w else z3.Int(name))
        s = SymInt(v, lo, hi, w)
        if ex.pos < len(ex.trail):
            if not ex.trail[ex.pos].is_assume:
                raise Unmodelled('replay desynchronised at the declaration of %s' % name)
            ex.pos += 1          # replaying the range assumption
        else:
            ex.assume(z3.And(v >= lo, v <= hi))
        return s

    def real(self, name, lo, hi):
        """A symbolic real number in [lo, hi] (exact-real stand-in for a float)."""
        from . import reals
        ex = self.ex
        v = ex.declare(name, 'real', lambda: z3.Real(name))
        if ex.pos < len(ex.trail) and ex.trail[ex.pos].is_assume:
            ex.pos += 1
        else:
            ex.assume(z3.And(v >= reals.const(lo), v <= reals.const(hi)))
        return reals.SymReal(v)

    def bool(self, name):
        """A symbolic boolean decided by forking (returns a concrete bool)."""
        return bool(self.int(name, 0, 1) == 1)

    def choice(self, name, n):
        """Index 0..n-1 chosen by certified forks (returns a concrete int)."""
        if n <= 1:
            self.int(name, 0, 0)
            return 0
        return self.int(name, 0, n - 1).__index__()

    def opaque(self, name, kind='real'):
        return OpaqueReal(name) if kind == 'real' else Opaque(name)

    def assume(self, cond):
        self.ex.assume(cond)

    def assume_fn(self, fn):
        """assume(fn()) without rebuilding the formula while replaying a prefix."""
        ex = self.ex
        if ex.pos < len(ex.trail) and ex.trail[ex.pos].is_assume:
            ex.pos += 1
            return
        self.ex.assume(fn())

    def symlist(self, head, n, fill=0):
        """List of symbolic length: head + n copies of fill."""
        return stubs.SymList(head, n, fill)

    # ---- obligations
    def _region_expr(self, entry):
        reg = entry.get('region')
        if not reg:
            return z3.BoolVal(True)
        ns = {'And': z3.And, 'Or': z3.Or, 'Not': z3.Not}
        for name, (v, kind) in self.ex.inputs.items():
            ns[name.replace('.', '_').replace('[', '_').replace(']', '')] = v
        try:
            return eval(reg, {'__builtins__': {}}, ns)   # noqa: S307
        except NameError:
            return z3.BoolVal(False)     # region speaks of inputs this path lacks

    def _known_for(self, label):
        return [k for k in self.known if fnmatch.fnmatch(label, k.get('label', '*'))]

    def check(self, cond, label):
        self.hit(label)
        self.ex.stats['checks'] += 1
        if isinstance(cond, SymBool):
            neg = z3.Not(cond.e)
        elif isinstance(cond, SymInt):
            neg = (cond.e == 0)
        else:
            if cond:
                return True
            neg = None
        self._violation(neg, label, '')
        return False

    def fail(self, label, detail=''):
        self.hit(label)
        self._violation(None, label, detail)

    def _violation(self, neg, label, detail):
        ex = self.ex
        known = self._known_for(label)
        extra = [] if neg is None else [neg]
        if known:
            regions = [self._region_expr(k) for k in known]
            for k, r in zip(known, regions):
                m = ex.query_model(*(extra + [r]))
                if m is not None:
                    self.known_hits.setdefault(k['id'], ex.model_dict(m))
                    self.suppressed.add(label)
            excl = z3.And(*[z3.Not(r) for r in regions])
            m = ex.query_model(*(extra + [excl]))
            if m is None:
                return
        else:
            m = ex.query_model(*extra) if extra else ex.get_model()
            if m is None:
                return      # the check holds on this path
        v = Violation(label, ex.model_dict(m), detail)
        # further witnesses of the same violation: used only if the first one does
        # not reproduce on the real code (the real-arithmetic models over-approximate
        # floats, so a witness can sit on a knife edge that doubles round away)
        v.alternatives = []
        if ex.rounding or any(kind == 'real' for _, kind in ex.inputs.values()):
            ints = [(n, var) for n, (var, kind) in ex.inputs.items() if kind == 'int' and '!' not in n]
            ex.solver.push()
            try:
                cur = m
                for _ in range(12):
                    ex.solver.add(z3.Or(*[var != cur.eval(var, model_completion=True) for n, var in ints]) if ints
                                  else z3.BoolVal(False))
                    if extra:
                        ex.solver.add(*extra)
                    r = ex.solver.check()
                    if r != z3.sat:
                        break
                    cur = ex.solver.model()
                    v.alternatives.append(ex.model_dict(cur))
            finally:
                ex.solver.pop()
        self.violations.append(v)

    def close(self, a, b, ulps=0, scale=0.0):
        """a == b in the exact-real model; |a-b| <= ulps * 2**-53 * |b| in the
        rounding model (formula).  `scale` only widens the float tolerance of
        the concrete cross-check (differences of large clock values)."""
        from . import reals
        ea, eb = reals.to_expr(a), reals.to_expr(b)
        if not self.ex.rounding or not ulps:
            return SymBool(ea == eb)
        tol = z3.RealVal('%d/9007199254740992' % ulps) * z3.If(eb >= 0, eb, -eb)
        return SymBool(z3.And(ea - eb <= tol, eb - ea <= tol))

    def valid(self, cond):
        """Is cond true for EVERY input of the current path?  One query, no fork."""
        if isinstance(cond, SymBool):
            return self.ex.note(lambda: not self.ex._sat(z3.Not(cond.e)))
        return bool(cond)

    def eval_repr(self, text, namespace):
        return tokens.eval_with_tokens(text, namespace)


class ConCx(BaseCx):
    symbolic = False

    def __init__(self, model):
        BaseCx.__init__(self)
        self.model = model
        self.failed = []
        self.undeclared = []

    def _get(self, name, default):
        if name not in self.model:
            self.undeclared.append(name)
            return default
        return self.model[name]

    def int(self, name, lo, hi):
        v = self._get(name, lo)
        if not (lo <= v <= hi):
            raise PathAbort()
        return int(v)

    def real(self, name, lo, hi):
        v = self._get(name, lo)
        if isinstance(v, str):
            import fractions
            v = fractions.Fraction(v)
        return float(v)

    def bool(self, name):
        return self.int(name, 0, 1) == 1

    def choice(self, name, n):
        return self.int(name, 0, max(n - 1, 0))

    def opaque(self, name, kind='real'):
        # a distinctive concrete stand-in (float for 'real', str otherwise)
        v = ConcreteOpaqueFloat(opaque_value(name)) if kind == 'real' else ConcreteOpaqueStr('opaque-%s' % name)
        v.tag = name
        return v

    def assume(self, cond):
        if not cond:
            raise PathAbort()

    def assume_fn(self, fn):
        self.assume(fn())

    def symlist(self, head, n, fill=0):
        return list(head) + [fill] * n

    def check(self, cond, label):
        self.hit(label)
        if cond:
            return True
        self.failed.append(label)
        return False

    def fail(self, label, detail=''):
        self.hit(label)
        self.failed.append(label)

    def valid(self, cond):
        return bool(cond)

    def close(self, a, b, ulps=0, scale=0.0):
        a, b = float(a), float(b)
        return abs(a - b) <= 1e-9 * max(abs(a), abs(b), scale) + 1e-300

    def eval_repr(self, text, namespace):
        return eval(text, dict(namespace))   # noqa: S307


# --------------------------------------------------------------------------
# running one job
# --------------------------------------------------------------------------

def run_concrete(hdef, params, model, trace=False):
    """One concrete execution of a harness on plain values and the real,
    unstubbed code.  Returns the ConCx plus the escaped exception (if any)."""
    stubs.uninstall()
    stubs.restore_globals()
    tokens.reset()
    core.CUR = None
    ccx = ConCx(model)
    escaped = None
    try:
        hdef.fn(ccx, **params)
    except PathAbort:
        escaped = 'PathAbort'
    except EngineControl as e:
        escaped = 'engine:%s:%s' % (type(e).__name__, e)
    except Exception as e:    # noqa: BLE001
        escaped = 'uncaught:%s' % type(e).__name__
        if trace:
            traceback.print_exc()
    return ccx, escaped


_TRACED = set()


def _tracer_for(repo_prefix):
    def tracer(frame, event, arg):
        if event == 'call':
            co = frame.f_code
            fn = co.co_filename
            if fn.startswith(repo_prefix):
                _TRACED.add((fn[len(repo_prefix):].lstrip('/'), co.co_qualname
                             if hasattr(co, 'co_qualname') else co.co_name))
        return None
    return tracer


def _diverse_models(ex, limit):
    """Up to `limit` further models of the current path condition that push one integer input at a time
    towards negative values / its extremes."""
    out = []
    ints = [(n, var) for n, (var, kind) in ex.inputs.items() if kind == 'int' and '!' not in n
            and not n.startswith('sched')]
    for n, var in ints[:12]:
        for extra in ((var < 0), (var > 127), (var == 0)):
            if len(out) >= limit:
                return out
            try:
                r = ex.solver.check(extra)
            except Exception:      # noqa: BLE001
                continue
            if r == z3.sat:
                try:
                    out.append(ex.model_dict(ex.solver.model()))
                except EngineControl:
                    pass
    return out


def _replay_in_subprocess(hdef, params, v):
    import json
    import os
    import subprocess
    import tempfile
    prop = hdef.fn.__module__.split('.')[-1]
    with tempfile.NamedTemporaryFile('w', suffix='.json', delete=False) as f:
        json.dump({'property': prop, 'harness': hdef.fn.__name__, 'params': params, 'label': v.label,
                   'model': v.model, 'detail': ''}, f, default=str)
        path = f.name
    try:
        r = subprocess.run([sys.executable, '-B', '-m', 'pysym.runner', prop, '--replay', path],
                           capture_output=True, text=True, timeout=600, env=dict(os.environ))
        return r.returncode == 1 and 'VIOLATION' in r.stdout
    except Exception:      # noqa: BLE001
        return False
    finally:
        os.unlink(path)


class JobResult:
    def __init__(self, name, params):
        self.name = name
        self.params = params
        self.status = 'HOLDS'
        self.reason = ''
        self.stats = {}
        self.hits = {}
        self.violations = []      # dicts
        self.known = {}           # id -> model
        self.samples = []
        self.functions = []
        self.wall_s = 0.0
        self.replays = 0
        self.xchecks = 0
        self.knife_edge_paths = 0


def run_job(hdef, params, known=(), max_paths=2_000_000, deadline_s=3600,
            xcheck_every=1, repo_prefix=None, width=None, use_trace=True,
            max_violations=8, rounding=False, solver_timeout_ms=60000):
    """Explore every path of one harness instance.  Verdict: HOLDS, VIOLATION
    or INCONCLUSIVE (never HOLDS unless the trail was exhausted)."""
    res = JobResult(hdef.name, params)
    t0 = time.time()
    ex = Explorer(width=core.W if width is None else width, timeout_ms=solver_timeout_ms)
    ex.rounding = rounding
    stubs.snapshot_globals()
    seen_labels = set()
    inconclusive = []
    confirmed = []
    tracer = _tracer_for(repo_prefix) if (repo_prefix and use_trace) else None
    _TRACED.clear()
    try:
        while True:
            if ex.stats['paths'] >= max_paths or time.time() - t0 > deadline_s:
                raise Budget('budget exhausted after %d paths, %.0f s'
                             % (ex.stats['paths'], time.time() - t0))
            ex.begin_path()
            tokens.reset()
            stubs.restore_globals()
            stubs.install(hdef.extra_stubs)
            cx = SymCx(ex, known)
            core.CUR = ex
            status = 'ok'
            if tracer and ex.stats['paths'] <= 3:
                sys.settrace(tracer)
            try:
                hdef.fn(cx, **params)
            except PathAbort:
                status = 'abort'
                ex.stats['aborted'] += 1
            except Unmodelled as u:
                status = 'unmodelled'
                inconclusive.append('unmodelled: %s' % u)
            except Budget:
                raise
            except EngineControl as e:
                status = 'unmodelled'
                inconclusive.append('engine: %r' % (e,))
            except RecursionError:
                status = 'unmodelled'
                inconclusive.append('recursion limit inside harness')
            except Exception as e:    # noqa: BLE001
                status = 'uncaught'
                try:
                    cx.fail('uncaught:%s' % type(e).__name__,
                            detail=''.join(traceback.format_exception(type(e), e, e.__traceback__)[-3:]))
                except PathAbort:
                    status = 'abort'
                except Unmodelled as u:
                    inconclusive.append('unmodelled: %s' % u)
            finally:
                if tracer:
                    sys.settrace(None)
            path_model = None
            path_zmodel = None
            if status != 'abort':
                try:
                    path_zmodel = ex.robust_model()
                    if path_zmodel is None:
                        # the path exists only on a knife edge of a real comparison: its witness cannot be
                        # re-executed faithfully with doubles; counted, not cross-checked
                        res.knife_edge_paths += 1
                        path_model = None
                        ex.get_model()
                    else:
                        path_model = ex.model_dict(path_zmodel)
                except PathAbort:
                    status = 'abort'
                except Unmodelled as u:
                    inconclusive.append('unmodelled: %s' % u)
            core.CUR = None
            stubs.uninstall()
            if status != 'abort':
                for k, v in cx.hits.items():
                    res.hits[k] = res.hits.get(k, 0) + v
            for kid, m in cx.known_hits.items():
                res.known.setdefault(kid, m)
            # ---- concrete cross-check of this path (engine + stub validation)
            if status == 'ok' and path_model is not None and not cx.violations \
                    and (ex.stats['paths'] % xcheck_every == 0 or ex.stats['paths'] <= 3):
                m = path_zmodel

                def ev(e, m=m):
                    return core.z3_to_py(m.eval(e, model_completion=True))
                sym_obs = [(k, norm(v, ev)) for k, v in cx.obs]
                ccx, escaped = run_concrete(hdef, params, path_model)
                res.xchecks += 1
                con_obs = [(k, norm(v)) for k, v in ccx.obs]
                problem = None
                if escaped:
                    problem = 'concrete run ended with %s' % escaped
                elif [f for f in ccx.failed if f not in cx.suppressed]:
                    problem = 'concrete run fails %s which the symbolic path passed' % ccx.failed
                elif len(sym_obs) != len(con_obs) or not all(
                        a[0] == b[0] and approx_equal(a[1], b[1]) for a, b in zip(sym_obs, con_obs)):
                    diff = [(a, b) for a, b in zip(sym_obs, con_obs) if a != b][:3]
                    problem = 'observables differ: %r' % (diff or (len(sym_obs), len(con_obs)),)
                if problem:
                    inconclusive.append('cross-check mismatch on %r: %s' % (path_model, problem))
                if len(res.samples) < 4:
                    res.samples.append({'inputs': path_model, 'observed': sym_obs[:6]})
            # ---- replay every counterexample on the real code
            for v in cx.violations:
                key = v.label
                if key in seen_labels and len(confirmed) >= 1:
                    continue
                seen_labels.add(key)
                ccx, escaped = run_concrete(hdef, params, v.model)
                res.replays += 1
                ok = (v.label in ccx.failed) or (escaped is not None and escaped == v.label)
                for alt in getattr(v, 'alternatives', []):
                    if ok:
                        break
                    ccx, escaped = run_concrete(hdef, params, alt)
                    res.replays += 1
                    ok = (v.label in ccx.failed) or (escaped is not None and escaped == v.label)
                    if ok:
                        v.model = alt
                if not ok:
                    # the witness may be unrepresentative (number<->text tokens and real arithmetic abstract the
                    # concrete values away): try a few diverse inputs of the same path (each sign / each end of
                    # every integer input)
                    for alt in _diverse_models(ex, 10):
                        ccx, escaped = run_concrete(hdef, params, alt)
                        res.replays += 1
                        if (v.label in ccx.failed) or (escaped is not None and escaped == v.label):
                            ok = True
                            v.model = alt
                            break
                if not ok and escaped is not None and str(escaped).startswith('engine:'):
                    # proxies of the symbolic run leaked into module-level state of the code under analysis
                    # (e.g. a shared object that a path mutated): replay in a fresh interpreter instead
                    ok = _replay_in_subprocess(hdef, params, v)
                    res.replays += 1
                if ok:
                    confirmed.append({'label': v.label, 'model': v.model, 'detail': v.detail})
                else:
                    inconclusive.append(
                        'counterexample for %s does not reproduce concretely (model %r, concrete failed=%r escaped=%r) detail=%s'
                        % (v.label, v.model, ccx.failed, escaped, v.detail[-400:]))
            if len(confirmed) >= max_violations or len(inconclusive) >= 20:
                if confirmed:
                    break
                if len(inconclusive) >= 20:
                    break
            if not ex.next_path():
                break
    except Budget as b:
        inconclusive.append(str(b))
    except Unmodelled as u:
        inconclusive.append('unmodelled (between paths): %s' % u)
    finally:
        core.CUR = None
        stubs.uninstall()
        stubs.restore_globals()
    res.stats = dict(ex.stats)
    res.violations = confirmed
    res.functions = sorted(_TRACED)
    res.wall_s = time.time() - t0
    if confirmed:
        res.status = 'VIOLATION'
    elif inconclusive:
        res.status = 'INCONCLUSIVE'
    res.reason = '; '.join(inconclusive[:3])
    return res
