"""pysym core: proxy values whose operators build z3 terms, and the exhaustive
depth-first path explorer (deterministic re-execution, model-guided forking,
static interval decisions refined along the path).

See /verif/DESIGN.md section 3.  Nothing here knows about mido.
"""
import numbers
import time

import z3

W = 64            # default bit-width of SymInt terms
REALISE_CAP = 300  # max values enumerated at one C boundary on one path


class EngineControl(BaseException):
    """Base of the engine's own control-flow exceptions.  BaseException so that
    `except Exception` / `except ValueError` in the code under analysis never
    swallows them."""


class PathAbort(EngineControl):
    """The current path is infeasible or was cut by an assumption."""


class Unmodelled(EngineControl):
    """Something the engine cannot model soundly: the verdict is INCONCLUSIVE."""


class Budget(EngineControl):
    """Path or wall-clock budget exhausted: INCONCLUSIVE."""


CUR = None   # the Explorer running the current path (one per process)


def cur():
    if CUR is None:
        raise Unmodelled('symbolic value used outside an exploration')
    return CUR


class Entry:
    __slots__ = ('cond', 'dec', 'done', 'aux', 'ref_t', 'ref_f', 'is_assume', 'is_note', 'robust')

    def __init__(self, cond, dec, done, aux=None, ref_t=None, ref_f=None,
                 is_assume=False, is_note=False):
        self.cond = cond
        self.dec = dec
        self.done = done          # alternative exhausted / infeasible
        self.aux = aux
        self.ref_t = ref_t
        self.ref_f = ref_f
        self.is_assume = is_assume
        self.is_note = is_note
        self.robust = None        # (cond holds with a margin, its negation holds with a margin) for real comparisons


class Explorer:
    def __init__(self, timeout_ms=60000, width=W):
        self.width = width
        self.solver = z3.Solver()
        self.solver.set('timeout', timeout_ms)
        self.trail = []
        self.pos = 0
        self.stats = dict(paths=0, queries=0, sat=0, unsat=0, solver_s=0.0,
                          forks=0, assumes=0, checks=0, realisations=0,
                          aborted=0)
        self.inputs = {}          # name -> (z3 var, kind)
        self.input_order = []
        self._model = None
        self.ref = {}             # z3 ast id -> (lo, hi) refinement on this path
        self.fresh_counter = 0
        self.rounding = False     # reals: exact (False) or (1+d) rounding model (True)

    # ------------------------------------------------------------- solver
    def _sat(self, *extra):
        t = time.time()
        self.stats['queries'] += 1
        r = self.solver.check(*extra)
        self.stats['solver_s'] += time.time() - t
        if r == z3.sat:
            self.stats['sat'] += 1
            return True
        if r == z3.unsat:
            self.stats['unsat'] += 1
            return False
        raise Unmodelled('solver answered unknown (%s)' % self.solver.reason_unknown())

    def get_model(self):
        if self._model is None:
            if not self._sat():
                raise PathAbort()
            self._model = self.solver.model()
        return self._model

    def query_model(self, *extra):
        """Model of PC and extra, or None."""
        if self._sat(*extra):
            return self.solver.model()
        return None

    # ------------------------------------------------------------- inputs
    def declare(self, name, sort_kind, mk):
        v = self.inputs.get(name)
        if v is None:
            v = (mk(), sort_kind)
            self.inputs[name] = v
            self.input_order.append(name)
        return v[0]

    def fresh_name(self, base):
        self.fresh_counter += 1
        return '%s!%d' % (base, self.fresh_counter)

    def eval_input(self, model, name):
        v, kind = self.inputs[name]
        r = model.eval(v, model_completion=True)
        return z3_to_py(r)

    def model_dict(self, model=None):
        m = model if model is not None else self.get_model()
        return {k: self.eval_input(m, k) for k in self.input_order if '!' not in k}

    # ------------------------------------------------------------- trail
    def replaying(self):
        return self.pos < len(self.trail)

    def _apply_ref(self, e):
        r = e.ref_t if e.dec else e.ref_f
        if r is not None:
            k, (lo, hi) = r
            old = self.ref.get(k)
            if old is not None:
                lo, hi = max(lo, old[0]), min(hi, old[1])
            self.ref[k] = (lo, hi)

    def fork(self, cond, aux=None, refine=None, robust=None):
        if self.pos < len(self.trail):
            e = self.trail[self.pos]
            if e.is_assume or e.is_note or e.cond.get_id() != cond.get_id():
                raise Unmodelled('replay desynchronised: the harness or the code under analysis did not '
                                 'repeat its decisions (position %d: %s vs %s)' % (
                                     self.pos, str(e.cond)[:80], str(cond)[:80]))
            self.pos += 1
            self._apply_ref(e)
            return e.dec
        self.stats['forks'] += 1
        m = self.get_model()
        val = z3.is_true(m.eval(cond, model_completion=True))
        neg = z3.Not(cond)
        other = self._sat(neg if val else cond)
        e = Entry(cond, val, not other, aux,
                  refine[0] if refine else None, refine[1] if refine else None)
        e.robust = robust
        self.trail.append(e)
        self.solver.push()
        self.solver.add(cond if val else neg)
        self.pos += 1
        self._apply_ref(e)
        return val

    def assume(self, cond):
        if isinstance(cond, SymBool):
            cond = cond.e
        elif isinstance(cond, bool):
            if not cond:
                raise PathAbort()
            return
        if self.pos < len(self.trail):
            if not self.trail[self.pos].is_assume:
                raise Unmodelled('replay desynchronised: assume where a fork was recorded (position %d)' % self.pos)
            self.pos += 1
            return
        self.stats['assumes'] += 1
        self.trail.append(Entry(cond, True, True, is_assume=True))
        self.solver.push()
        self.solver.add(cond)
        if self._model is not None:
            if not z3.is_true(self._model.eval(cond, model_completion=True)):
                self._model = None
        self.pos += 1

    def note(self, compute):
        """A solver-derived fact that steers control flow (e.g. 'is this valid
        on the current path?').  Its value is recorded in the trail so that the
        re-execution of the prefix repeats it exactly: during replay the solver
        already holds later decisions of the path and could answer differently."""
        if self.pos < len(self.trail):
            e = self.trail[self.pos]
            if not e.is_note:
                raise Unmodelled('replay desynchronised: note where a decision was recorded (position %d)' % self.pos)
            self.pos += 1
            return e.aux
        value = compute()
        self.trail.append(Entry(None, True, True, aux=value, is_note=True))
        self.solver.push()
        self.pos += 1
        return value

    # ------------------------------------------------------------- search
    def next_path(self):
        """Backtrack to the deepest open alternative; False when exhausted."""
        while self.trail and self.trail[-1].done:
            self.trail.pop()
            self.solver.pop()
        if not self.trail:
            return False
        e = self.trail[-1]
        self.solver.pop()
        e.dec = not e.dec
        e.done = True
        self.solver.push()
        self.solver.add(e.cond if e.dec else z3.Not(e.cond))
        self._model = None
        return True

    def robust_model(self):
        """A model of the path condition in which every comparison of reals decided on this path holds
        with a margin (so that double rounding cannot flip it in the concrete re-execution); None when
        the path is only feasible on a knife edge."""
        extra = []
        for e in self.trail:
            if e.robust is not None:
                r = e.robust[0] if e.dec else e.robust[1]
                if r is None:
                    return None
                extra.append(r)
        if not extra:
            return self.get_model()
        self.solver.push()
        try:
            self.solver.add(*extra)
            t = time.time()
            r = self.solver.check()
            self.stats['solver_s'] += time.time() - t
            self.stats['queries'] += 1
            if r != z3.sat:
                return None
            return self.solver.model()
        finally:
            self.solver.pop()

    def begin_path(self):
        self.pos = 0
        self.ref = {}
        self.fresh_counter = 0
        self.stats['paths'] += 1


def z3_to_py(r):
    if z3.is_bv_value(r):
        return r.as_signed_long()
    if z3.is_int_value(r):
        return r.as_long()
    if z3.is_true(r):
        return True
    if z3.is_false(r):
        return False
    if z3.is_rational_value(r):
        import fractions
        return fractions.Fraction(r.numerator_as_long(), r.denominator_as_long())
    if z3.is_algebraic_value(r):
        r = r.approx(30)
        import fractions
        return fractions.Fraction(r.numerator_as_long(), r.denominator_as_long())
    raise Unmodelled('cannot read model value %r' % (r,))


# ---------------------------------------------------------------------------
# proxies
# ---------------------------------------------------------------------------

def _bits(lo, hi):
    return max(abs(lo), abs(hi)).bit_length() + 1


class SymBool:
    __slots__ = ('e', 'refine', 'robust')

    def __init__(self, e, refine=None, robust=None):
        self.e = e
        self.refine = refine
        self.robust = robust

    def __bool__(self):
        return cur().fork(self.e, refine=self.refine, robust=self.robust)

    # non-forking connectives (used by harness obligations): & | ~
    def __and__(self, o):
        if o is True:
            return self
        if o is False:
            return False
        if isinstance(o, SymBool):
            return SymBool(z3.And(self.e, o.e))
        return NotImplemented
    __rand__ = __and__

    def __or__(self, o):
        if o is True:
            return True
        if o is False:
            return self
        if isinstance(o, SymBool):
            return SymBool(z3.Or(self.e, o.e))
        return NotImplemented
    __ror__ = __or__

    def __invert__(self):
        return SymBool(z3.Not(self.e))

    def __eq__(self, o):
        if isinstance(o, SymBool):
            return SymBool(self.e == o.e)
        if isinstance(o, bool):
            return self if o else ~self
        return NotImplemented

    __hash__ = None

    def __repr__(self):
        return 'SymBool(%s)' % (self.e,)


def sym_not(b):
    if isinstance(b, SymBool):
        return ~b
    return not b


def sym_and(*bs):
    out = True
    for b in bs:
        if b is False:
            return False
        if b is True:
            continue
        if not isinstance(b, SymBool):
            if not b:
                return False
            continue
        out = b if out is True else (out & b)
    return out


def sym_or(*bs):
    out = False
    for b in bs:
        if b is True:
            return True
        if b is False:
            continue
        if not isinstance(b, SymBool):
            if b:
                return True
            continue
        out = b if out is False else (out | b)
    return out


def sym_implies(a, b):
    return sym_or(sym_not(a), b)


def sym_ite(c, a, b):
    """Non-forking if-then-else over ints."""
    if isinstance(c, bool):
        return a if c else b
    a2, b2 = SymInt.lift(a), SymInt.lift(b)
    (alo, ahi), (blo, bhi) = a2.rng(), b2.rng()
    return SymInt(z3.If(c.e, a2.e, b2.e), min(alo, blo), max(ahi, bhi))


_CONSTS = {}


def _const(v, w):
    k = (v, w)
    c = _CONSTS.get(k)
    if c is None:
        if len(_CONSTS) > 50000:
            _CONSTS.clear()
        c = _CONSTS[k] = SymInt(z3.BitVecVal(v, w) if w else z3.IntVal(v), v, v, w)
    return c


class SymInt:
    """Integer proxy.  BitVec(W)-backed with a conservative interval: an
    operation whose interval no longer fits W-1 bits raises Unmodelled instead
    of wrapping, so Python's unbounded-int semantics are preserved."""
    __slots__ = ('e', 'lo', 'hi', 'id', 'w')

    def __init__(self, e, lo, hi, w=None):
        if lo > hi:
            # empty interval: the path is infeasible (or will be found so)
            lo, hi = hi, lo
        if w is None:
            w = e.size() if z3.is_bv(e) else 0
        if w and _bits(lo, hi) > w - 1:
            raise Unmodelled('integer magnitude beyond the %d-bit guard (%d..%d)'
                             % (w, lo, hi))
        self.e = e
        self.lo = lo
        self.hi = hi
        self.w = w
        self.id = e.get_id()

    # -- helpers
    def rng(self):
        r = CUR.ref.get(self.id) if CUR is not None else None
        if r is None:
            return self.lo, self.hi
        return max(self.lo, r[0]), min(self.hi, r[1])

    def _w(self):
        return self.w

    @staticmethod
    def lift(o, width=None):
        if isinstance(o, SymInt):
            return o
        if isinstance(o, bool):
            o = int(o)
        if isinstance(o, int):
            w = (CUR.width if CUR is not None else W) if width is None else width
            return _const(o, w)
        if isinstance(o, SymBool):
            w = (CUR.width if CUR is not None else W) if width is None else width
            return SymInt(z3.If(o.e, _const(1, w).e, _const(0, w).e), 0, 1, w)
        return None

    def _lift(self, o):
        return SymInt.lift(o, self._w())

    def _bin(self, o, zf, lof):
        o2 = self._lift(o)
        if o2 is None:
            if isinstance(o, float) or type(o).__name__ == 'SymReal':
                from . import reals
                return zf(reals.to_real(self), o)      # real arithmetic takes over
            return NotImplemented
        o = o2
        lo, hi = lof(self.rng(), o.rng())
        return SymInt(zf(self.e, o.e), lo, hi, self.w)

    # -- arithmetic
    def __add__(self, o):
        return self._bin(o, lambda a, b: a + b, lambda a, b: (a[0] + b[0], a[1] + b[1]))
    __radd__ = __add__

    def __sub__(self, o):
        return self._bin(o, lambda a, b: a - b, lambda a, b: (a[0] - b[1], a[1] - b[0]))

    def __rsub__(self, o):
        o2 = self._lift(o)
        if o2 is None:
            if isinstance(o, float):
                from . import reals
                return o - reals.to_real(self)
            return NotImplemented
        return o2.__sub__(self)

    def __neg__(self):
        lo, hi = self.rng()
        return SymInt(-self.e, -hi, -lo)

    def __pos__(self):
        return self

    def __abs__(self):
        lo, hi = self.rng()
        if lo >= 0:
            return self
        if hi <= 0:
            return -self
        return SymInt(z3.If(self.e >= 0, self.e, -self.e), 0, max(-lo, hi))

    def __mul__(self, o):
        def rng(a, b):
            c = [a[0] * b[0], a[0] * b[1], a[1] * b[0], a[1] * b[1]]
            return min(c), max(c)
        return self._bin(o, lambda a, b: a * b, rng)
    __rmul__ = __mul__

    def _divmod(self, o):
        o = self._lift(o)
        if o is None:
            return None
        if bool(o == 0):
            raise ZeroDivisionError('integer division or modulo by zero')
        a, b = self.rng(), o.rng()
        if not self.w and not b[0] > 0:
            raise Unmodelled('integer-sort division by a divisor that is not provably positive')
        # z3py: % on BitVec is bvsmod (sign follows the divisor) == Python %;
        # on Int, mod/div by a positive divisor are Python's % and //
        r = self.e % o.e
        q = (self.e - r) / o.e      # exact, so truncating bvsdiv == floor
        if b[0] > 0:
            qs = [a[0] // b[0], a[0] // b[1], a[1] // b[0], a[1] // b[1]]
            qlo, qhi = min(qs), max(qs)
            if a[0] >= 0 and a[1] < b[0]:
                rlo, rhi = a
            else:
                rlo, rhi = 0, b[1] - 1
        elif b[1] < 0:
            qs = [a[0] // b[0], a[0] // b[1], a[1] // b[0], a[1] // b[1]]
            qlo, qhi = min(qs), max(qs)
            rlo, rhi = b[0] + 1, 0
        else:
            m = max(abs(a[0]), abs(a[1]))
            qlo, qhi = -m, m
            mb = max(abs(b[0]), abs(b[1]))
            rlo, rhi = -mb, mb
        return SymInt(q, qlo, qhi), SymInt(r, rlo, rhi)

    def __floordiv__(self, o):
        r = self._divmod(o)
        return NotImplemented if r is None else r[0]

    def __rfloordiv__(self, o):
        o = self._lift(o)
        return NotImplemented if o is None else o.__floordiv__(self)

    def __mod__(self, o):
        r = self._divmod(o)
        return NotImplemented if r is None else r[1]

    def __rmod__(self, o):
        if isinstance(o, str):          # '%d' % sym
            return o % (self.__index__(),)
        o = self._lift(o)
        return NotImplemented if o is None else o.__mod__(self)

    def __divmod__(self, o):
        r = self._divmod(o)
        return NotImplemented if r is None else r

    def __truediv__(self, o):
        from . import reals
        return reals.int_truediv(self, o)

    def __rtruediv__(self, o):
        from . import reals
        return reals.int_rtruediv(self, o)

    def __pow__(self, o, mod=None):
        if mod is not None:
            raise Unmodelled('3-argument pow')
        if isinstance(o, SymInt):
            o = o.__index__()
        if not isinstance(o, int) or o < 0:
            raise Unmodelled('pow with non-natural exponent')
        r = SymInt.lift(1, self._w())
        for _ in range(o):
            r = r * self
        return r

    def __rpow__(self, base):
        n = self.__index__()
        return base ** n

    # -- shifts and bit operations
    def __lshift__(self, o):
        if isinstance(o, SymInt):
            o = o.__index__()
        if o < 0:
            raise ValueError('negative shift count')
        lo, hi = self.rng()
        if not self.w:
            return SymInt(self.e * (1 << o), lo << o, hi << o, 0)
        return SymInt(self.e << o, lo << o, hi << o)

    def __rlshift__(self, o):
        return self._lift(o) << self.__index__()

    def __rshift__(self, o):
        if isinstance(o, SymInt):
            o = o.__index__()
        if o < 0:
            raise ValueError('negative shift count')
        lo, hi = self.rng()
        if not self.w:
            return SymInt(self.e / (1 << o), lo >> o, hi >> o, 0)     # Int div by a positive constant = floor
        if o >= self._w():
            o = self._w() - 1
        return SymInt(self.e >> o, lo >> o, hi >> o)   # z3py >> is arithmetic

    def __rrshift__(self, o):
        return self._lift(o) >> self.__index__()

    @staticmethod
    def _bitrng(a, b):
        n = max(_bits(*a), _bits(*b)) - 1
        return -(1 << n), (1 << n) - 1

    def __and__(self, o):
        o = self._lift(o)
        if o is None:
            return NotImplemented
        a, b = self.rng(), o.rng()
        if not self.w:
            return self._int_and(o, a, b)
        if b[0] >= 0 and a[0] >= 0:
            lo, hi = 0, min(a[1], b[1])
        elif b[0] >= 0:
            lo, hi = 0, b[1]
        elif a[0] >= 0:
            lo, hi = 0, a[1]
        else:
            lo, hi = self._bitrng(a, b)
        return SymInt(self.e & o.e, lo, hi)
    __rand__ = __and__

    def _int_and(self, o, a, b):
        """x & (2**k - 1) on the integer sort = x mod 2**k."""
        for x, m in ((self, b), (o, a)):
            if m[0] == m[1] and m[0] >= 0 and (m[0] & (m[0] + 1)) == 0:
                if m[0] == 0:
                    return _const(0, 0)
                return SymInt(x.e % (m[0] + 1), 0, m[0], 0)
        for x, m in ((self, b), (o, a)):
            # x & ~(2**k - 1) for small non-negative x below 2**k ... not needed; refuse
            pass
        raise Unmodelled('bitwise and on the integer sort (only masks 2**k-1 are modelled)')

    def _int_or(self, o, a, b):
        """x | c on the integer sort when the operands provably share no bit: x + c."""
        for x, xr, c in ((self, a, b), (o, b, a)):
            if c[0] == c[1] and c[0] >= 0 and xr[0] >= 0:
                cv = c[0]
                if cv == 0:
                    return x
                low = (cv & -cv)            # lowest set bit of the constant
                if xr[1] < low:
                    return SymInt(x.e + cv, xr[0] + cv, xr[1] + cv, 0)
        if a[0] >= 0 and b[0] >= 0:
            # two ranges [0, 2**i * m) with disjoint bit positions are not tracked: refuse
            pass
        raise Unmodelled('bitwise or on the integer sort (only provably disjoint constant bits are modelled)')

    def __or__(self, o):
        o = self._lift(o)
        if o is None:
            return NotImplemented
        a, b = self.rng(), o.rng()
        if not self.w:
            return self._int_or(o, a, b)
        lo, hi = self._bitrng(a, b)
        if a[0] >= 0 and b[0] >= 0:
            lo = max(a[0], b[0])
        elif a[0] >= 0 or b[0] >= 0:
            pass
        if a[1] < 0 or b[1] < 0:
            hi = -1
        return SymInt(self.e | o.e, lo, hi)
    __ror__ = __or__

    def __xor__(self, o):
        o = self._lift(o)
        if o is None:
            return NotImplemented
        a, b = self.rng(), o.rng()
        if not self.w:
            raise Unmodelled('bitwise xor on the integer sort')
        lo, hi = self._bitrng(a, b)
        if a[0] >= 0 and b[0] >= 0:
            lo = 0
        return SymInt(self.e ^ o.e, lo, hi)
    __rxor__ = __xor__

    def __invert__(self):
        lo, hi = self.rng()
        if not self.w:
            return SymInt(-self.e - 1, -hi - 1, -lo - 1, 0)
        return SymInt(~self.e, -hi - 1, -lo - 1)

    def bit_length(self):
        n = 0
        v = abs(self)
        while bool(v != 0):
            v = v >> 1
            n += 1
        return n

    # -- comparisons
    def _cmp(self, o, op):
        if type(o) is int:
            a = self.rng()
            r = _static_cmp(a, o, op)
            if r is not None:
                return r
        o2 = self._lift(o)
        if o2 is None:
            from . import reals
            r = reals.cmp_int_other(self, o, op)
            return r
        a, b = self.rng(), o2.rng()
        if op == '<':
            if a[1] < b[0]:
                return True
            if a[0] >= b[1]:
                return False
            e = self.e < o2.e
        elif op == '<=':
            if a[1] <= b[0]:
                return True
            if a[0] > b[1]:
                return False
            e = self.e <= o2.e
        elif op == '>':
            if a[0] > b[1]:
                return True
            if a[1] <= b[0]:
                return False
            e = self.e > o2.e
        elif op == '>=':
            if a[0] >= b[1]:
                return True
            if a[1] < b[0]:
                return False
            e = self.e >= o2.e
        elif op == '==':
            if a[1] < b[0] or a[0] > b[1]:
                return False
            if a[0] == a[1] == b[0] == b[1]:
                return True
            if self.id == o2.id:
                return True
            e = self.e == o2.e
        else:
            if a[1] < b[0] or a[0] > b[1]:
                return True
            if a[0] == a[1] == b[0] == b[1]:
                return False
            if self.id == o2.id:
                return False
            e = self.e != o2.e
        refine = None
        if b[0] == b[1]:
            refine = _refinement(self.id, a, b[0], op)
        elif a[0] == a[1]:
            refine = _refinement(o2.id, b, a[0], _FLIP[op])
        return SymBool(e, refine)

    def __lt__(self, o):
        return self._cmp(o, '<')

    def __le__(self, o):
        return self._cmp(o, '<=')

    def __gt__(self, o):
        return self._cmp(o, '>')

    def __ge__(self, o):
        return self._cmp(o, '>=')

    def __eq__(self, o):
        r = self._cmp(o, '==')
        return False if r is NotImplemented else r

    def __ne__(self, o):
        r = self._cmp(o, '!=')
        return True if r is NotImplemented else r

    def __bool__(self):
        return bool(self != 0)

    # -- C boundaries: enumerate by forking
    def __index__(self):
        lo, hi = self.rng()
        if lo == hi:
            return lo
        ex = cur()
        n = 0
        while True:
            if ex.replaying():
                v = ex.trail[ex.pos].aux
                if v is None:
                    raise Unmodelled('replay desynchronised at a realisation point (non-deterministic harness?)')
            else:
                v = z3_to_py(ex.get_model().eval(self.e, model_completion=True))
                ex.stats['realisations'] += 1
            if ex.fork(self.e == v, aux=v, refine=((self.id, (v, v)), None)):
                return v
            n += 1
            if n > REALISE_CAP:
                raise Unmodelled('realisation fan-out above %d at a C boundary' % REALISE_CAP)

    __int__ = __index__

    def __hash__(self):
        return hash(self.__index__())

    def __float__(self):
        return float(self.__index__())

    def __format__(self, spec):
        from . import tokens
        return tokens.format_int(self, spec)

    def __str__(self):
        from . import tokens
        return tokens.format_int(self, '')

    def __repr__(self):
        from . import tokens
        return tokens.format_int(self, '')

    def conjugate(self):
        return self

    @property
    def real(self):
        return self

    @property
    def imag(self):
        return 0

    @property
    def numerator(self):
        return self

    @property
    def denominator(self):
        return 1

    def debug(self):
        return 'SymInt(%s in %s)' % (self.e, self.rng())


def _static_cmp(a, c, op):
    """Decide `x op c` from x's interval a, or None."""
    lo, hi = a
    if op == '<':
        return True if hi < c else (False if lo >= c else None)
    if op == '<=':
        return True if hi <= c else (False if lo > c else None)
    if op == '>':
        return True if lo > c else (False if hi <= c else None)
    if op == '>=':
        return True if lo >= c else (False if hi < c else None)
    if op == '==':
        if c < lo or c > hi:
            return False
        return True if lo == hi == c else None
    if c < lo or c > hi:
        return True
    return False if lo == hi == c else None


_FLIP = {'<': '>', '<=': '>=', '>': '<', '>=': '<=', '==': '==', '!=': '!='}


def _refinement(k, a, c, op):
    """(refinement if True, refinement if False) for `x op c`, x in a."""
    lo, hi = a
    if op == '<':
        return ((k, (lo, c - 1)), (k, (c, hi)))
    if op == '<=':
        return ((k, (lo, c)), (k, (c + 1, hi)))
    if op == '>':
        return ((k, (c + 1, hi)), (k, (lo, c)))
    if op == '>=':
        return ((k, (c, hi)), (k, (lo, c - 1)))
    ne = None
    if c == lo:
        ne = (k, (lo + 1, hi))
    elif c == hi:
        ne = (k, (lo, hi - 1))
    if op == '==':
        return ((k, (c, c)), ne)
    return (ne, (k, (c, c)))


numbers.Integral.register(SymInt)


def is_sym(x):
    return isinstance(x, (SymInt, SymBool))


class LookupProxy:
    """Stand-in for a module-level dict/set/frozenset with integer keys: a
    symbolic key is resolved by bisection forks over runs of consecutive keys
    that map to the same value object (a handful of forks instead of one path
    per key).  Contents are read from the real object, which stays untouched."""

    def __init__(self, d):
        self.d = d
        self.is_map = hasattr(d, 'keys')
        keys = sorted(k for k in d if isinstance(k, int) and not isinstance(k, bool))
        runs = []
        for k in keys:
            v = d[k] if self.is_map else True
            if runs and runs[-1][1] == k - 1 and runs[-1][2] is v:
                runs[-1][1] = k
            else:
                runs.append([k, k, v])
        self.runs = runs
        self.has_other_keys = len(keys) != len(d)

    def _find(self, key):
        if not isinstance(key, SymInt):
            try:
                if key in self.d:
                    return True, (self.d[key] if self.is_map else True)
            except TypeError:
                raise
            return False, None
        lo, hi = key.rng()
        if lo == hi:
            k = lo
            if k in self.d:
                return True, (self.d[k] if self.is_map else True)
            return False, None
        runs = self.runs
        i, j = 0, len(runs)
        while j - i > 0:
            mid = (i + j) // 2
            if key < runs[mid][0]:
                j = mid
            elif key <= runs[mid][1]:
                return True, runs[mid][2]
            else:
                i = mid + 1
        return False, None

    def __getitem__(self, key):
        ok, v = self._find(key)
        if not ok:
            raise KeyError(key)
        return v

    def __contains__(self, key):
        return self._find(key)[0]

    def get(self, key, default=None):
        ok, v = self._find(key)
        return v if ok else default

    def __iter__(self):
        return iter(self.d)

    def __len__(self):
        return len(self.d)

    def __eq__(self, o):
        if isinstance(o, LookupProxy):
            o = o.d
        return self.d == o

    __hash__ = None

    def __getattr__(self, name):
        # keys/items/values/copy/...: read-only delegation
        if name in ('keys', 'items', 'values', 'copy', 'union', 'intersection',
                    'difference', 'issubset', 'issuperset', 'isdisjoint'):
            return getattr(self.d, name)
        raise AttributeError(name)

    def __or__(self, o):
        return self.d | (o.d if isinstance(o, LookupProxy) else o)

    def __ror__(self, o):
        return (o.d if isinstance(o, LookupProxy) else o) | self.d

    def __repr__(self):
        return 'LookupProxy(%r)' % (self.d,)
