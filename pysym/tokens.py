"""Opaque text <-> number conversion (DESIGN 3.6).

str()/repr()/format(x, 'd') of a numeric proxy yields a unique private-use
token; the shadowed int()/float()/bytearray.fromhex()/eval map a token back to
its proxy.  This abstracts Python's own number<->text conversions as mutually
inverse uninterpreted functions so that the *structure* of mido's text codecs
runs symbolically for all values at once.
"""
import builtins
import re

from .core import SymInt, Unmodelled

OPEN, CLOSE, SEP = '\ue000', '\ue001', '\ue002'
_D0 = 0xE010          # digits of the token id are private-use characters too,
_C0 = 0xE100          # and so are the characters of the format spec: no
#                       ordinary separator/replace/split can cut a token.
TOKEN_RE = re.compile(OPEN + '([\ue010-\ue019]+)(?:' + SEP + '([\ue100-\ue1ff]*))?' + CLOSE)

REG = {}      # id -> (value proxy, spec)  -- reset at the start of every path


def reset():
    REG.clear()


def _enc_id(i):
    return ''.join(chr(_D0 + int(c)) for c in str(i))


def _dec_id(s):
    return int(''.join(str(ord(c) - _D0) for c in s))


def _new(value, spec):
    i = len(REG) + 1
    REG[i] = (value, spec)
    if spec:
        return OPEN + _enc_id(i) + SEP + ''.join(chr(_C0 + ord(c)) for c in spec) + CLOSE
    return OPEN + _enc_id(i) + CLOSE


def _tok(m):
    """(value, spec) of a TOKEN_RE match."""
    return REG[_dec_id(m.group(1))]


def format_int(x, spec):
    """format(SymInt, spec)."""
    lo, hi = x.rng()
    if lo == hi:
        return format(lo, spec)
    if spec in ('', 'd'):
        return _new(x, '')
    if spec in ('02X', '02x') and 0 <= lo and hi <= 255:
        # exactly two hex digits; fromhex/int(.., 16) map the token back
        return _new(x, spec)
    # the digits themselves are needed: enumerate (C boundary)
    return format(x.__index__(), spec)


def format_real(x, spec, kind='float'):
    return _new(x, 'r' if not spec else 'r' + spec)


def has_token(text):
    return isinstance(text, str) and OPEN in text


def single_token(text):
    """The (value, spec) of a string that is exactly one token, else None."""
    m = TOKEN_RE.fullmatch(text)
    if not m:
        return None
    return _tok(m)


def sym_int(x=0, *args):
    """Shadow for builtin int() in mido's text-parsing modules."""
    if isinstance(x, SymInt) and not args:
        return x                       # int() of an integer is that integer
    if type(x).__name__ == 'SymReal' and not args:
        return x.__trunc__()
    if has_token(x):
        s = x.strip()
        t = single_token(s)
        if t is None:
            raise Unmodelled('number token glued to other characters in int(%r)' % (x,))
        value, spec = t
        if args and args[0] == 16 and spec in ('02X', '02x'):
            return value
        if args:
            raise Unmodelled('int(token, base)')
        if spec == '':
            return value
        if spec.startswith('r'):
            # text of a float: int('1.5') raises ValueError, int('3.0') too
            raise ValueError('invalid literal for int() with base 10: %r' % (x,))
        raise Unmodelled('int() of a formatted token')
    return builtins.int(x, *args)


def sym_float(x=0.0):
    if has_token(x):
        t = single_token(x.strip())
        if t is None:
            raise Unmodelled('number token glued to other characters in float(%r)' % (x,))
        value, spec = t
        if spec == '':
            return builtins.float(value) if not isinstance(value, SymInt) else _int_to_float(value)
        if spec == 'r':
            return value
        raise Unmodelled('float() of a formatted token')
    return builtins.float(x)


def _int_to_float(v):
    from . import reals
    return reals.to_real(v)


def eval_with_tokens(text, namespace):
    """eval() of a repr that contains tokens: each token becomes a name bound to
    its proxy."""
    ns = dict(namespace)

    def sub(m):
        i = _dec_id(m.group(1))
        value, spec = REG[i]
        if spec not in ('', 'r'):
            raise Unmodelled('formatted token inside eval text')
        name = '__tok%d__' % i
        ns[name] = value
        return ' ' + name + ' '
    src = TOKEN_RE.sub(sub, text)
    return eval(src, ns)   # noqa: S307 - the text is mido's own repr output


def fromhex_items(text):
    """bytearray.fromhex on text that may contain '02X' tokens -> list of items."""
    out = []
    i, n = 0, len(text)
    while i < n:
        c = text[i]
        if c == ' ':
            i += 1
            continue
        if c == OPEN:
            m = TOKEN_RE.match(text, i)
            value, spec = _tok(m)
            if spec not in ('02X', '02x'):
                raise Unmodelled('non-hex token inside hex text')
            out.append(value)
            i = m.end()
            continue
        pair = text[i:i + 2]
        if len(pair) < 2 or OPEN in pair:
            if OPEN in pair:
                raise Unmodelled('hex digit glued to a token')
            raise ValueError('non-hexadecimal number found in fromhex() arg at position %d' % i)
        try:
            out.append(builtins.int(pair, 16))
        except ValueError:
            raise ValueError('non-hexadecimal number found in fromhex() arg at position %d' % i) from None
        if not all(ch in '0123456789abcdefABCDEF' for ch in pair):
            raise ValueError('non-hexadecimal number found in fromhex() arg at position %d' % i)
        i += 2
    return out
