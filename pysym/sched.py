"""Deterministic line-level thread scheduler (DESIGN 4/C10).

Real threads run the real code, but exactly one at a time: every source line
of the traced files is a yield point at which the next thread to run is
picked.  Each pick among several runnable threads is `cx.choice('sched<i>',
k)`: a symbolic integer, so the schedule is part of the path condition and the
explorer's exhaustive forking covers every schedule with at most `max_preempt`
preemptions (switches at blocking points, sleeps and thread exits are free).
Locks are cooperative re-entrant locks (a thread blocked on a held lock is not
schedulable); sleep() is a yield that lets every other thread run first.

The running thread takes the scheduling decision itself and hands over
directly to the chosen thread (no round trip through a scheduler thread); once
the preemption budget is used up a thread runs on to its next blocking point
without any hand-over at all."""
import sys
import threading as _threading

from .core import EngineControl

_local = _threading.local()
CURRENT = None          # the Sched of the running harness


class ThreadKill(BaseException):
    """Unwinds a parked worker thread when its path is abandoned."""


class Stuck(Exception):
    """Deadlock (every live thread blocked) or step budget exhausted."""


class CoopRLock:
    def __init__(self):
        self.owner = None
        self.count = 0

    def acquire(self, blocking=True, timeout=-1):
        s = CURRENT
        me = s.me() if s is not None else None
        if me is None:
            self.owner = self.owner or 'main'
            self.count += 1
            return True
        while self.owner is not None and self.owner is not me:
            if not blocking:
                return False
            me.blocked_on = self
            s.switch(me)
        me.blocked_on = None
        self.owner = me
        self.count += 1
        return True

    def release(self):
        self.count -= 1
        if self.count <= 0:
            self.count = 0
            self.owner = None

    def __enter__(self):
        self.acquire()
        return self

    def __exit__(self, *a):
        self.release()
        return False


class FakeThreading:
    """Stands in for the `threading` module inside mido/ports.py."""
    RLock = CoopRLock
    Lock = CoopRLock


class _T:
    def __init__(self, fn, name, tid):
        self.fn, self.name, self.tid = fn, name, tid
        self.sem = _threading.Semaphore(0)
        self.state = 'ready'          # ready | done
        self.blocked_on = None
        self.sleeping = False
        self.exc = None
        self.result = None
        self.kill = False
        self.thread = None


class Sched:
    def __init__(self, cx, traced_files, max_preempt, max_steps=3000, free_choices=True):
        self.cx = cx
        self.traced = set(traced_files)
        self.max_preempt = max_preempt
        self.max_steps = max_steps
        self.threads = []
        self.ctrl = _threading.Semaphore(0)
        self.preempts = 0
        self.nchoice = 0
        self.steps = 0
        self.trace = []
        self.stuck = None
        self.engine_exc = None
        # free_choices=False: picks at blocking points / thread exits follow round-robin order and a
        # different pick costs one unit of the same budget as a preemption (deviation bounding)
        self.free_choices = free_choices

    # ---- API for the harness
    def spawn(self, fn, name):
        t = _T(fn, name, len(self.threads))
        self.threads.append(t)
        return t

    def me(self):
        return getattr(_local, 't', None)

    def sleep(self, *a):
        """Replacement for mido.ports.sleep inside scheduled threads."""
        t = self.me()
        if t is None:
            return
        t.sleeping = True
        self.switch(t)

    # ---- decisions (always taken by the one thread that is running)
    def _runnable(self, t):
        return t.state == 'ready' and not (t.blocked_on is not None and t.blocked_on.owner is not None
                                           and t.blocked_on.owner is not t)

    def _choose(self, opts, after=None):
        if len(opts) == 1:
            return opts[0]
        if not self.free_choices and after is not None:
            # default: the next runnable thread in round-robin order after `after`
            n = len(self.threads)
            opts = sorted(opts, key=lambda o: (o.tid - after.tid - 1) % n)
            if self.preempts >= self.max_preempt:
                return opts[0]
            i = self.cx.choice('sched%d' % self.nchoice, len(opts))
            self.nchoice += 1
            if i:
                self.preempts += 1
            return opts[i]
        i = self.cx.choice('sched%d' % self.nchoice, len(opts))
        self.nchoice += 1
        return opts[i]

    def _tick(self):
        self.steps += 1
        if self.steps > self.max_steps:
            self.stuck = 'step budget exhausted: some call never returns'
            self._finish()
            raise ThreadKill()

    def _finish(self):
        """End of the run (all done, stuck, or an engine exception): wake the harness."""
        self.ctrl.release()

    def line(self, t):
        """Yield point at a source line: a preemption may happen here."""
        self._tick()
        if self.preempts >= self.max_preempt:
            return
        others = [o for o in self.threads if o is not t and self._runnable(o) and not o.sleeping]
        if not others:
            return
        nxt = self._choose([t] + others)
        if nxt is t:
            return
        self.preempts += 1
        self._handover(t, nxt)

    def switch(self, t):
        """Free switch at a blocking point / sleep: t cannot or will not go on now."""
        self._tick()
        pool = [o for o in self.threads if o is not t and self._runnable(o) and not o.sleeping]
        if not pool:
            # only sleepers (or t itself) are left: wake them
            cand = [o for o in self.threads if self._runnable(o)]
            for o in cand:
                o.sleeping = False
            pool = [o for o in cand if o is not t] or ([t] if self._runnable(t) else [])
            if not pool:
                self.stuck = 'deadlock: every live thread is blocked'
                self._finish()
                raise ThreadKill()
            if t in pool and len(pool) == 1:
                return
        nxt = self._choose(pool, after=t)
        if nxt is t:
            return
        self._handover(t, nxt)

    def _handover(self, t, nxt):
        nxt.sleeping = False
        self.trace.append(nxt.tid)
        nxt.sem.release()
        t.sem.acquire()
        if t.kill:
            raise ThreadKill()
        t.sleeping = False

    def _exit(self, t):
        """t has finished: pass the baton on, or end the run."""
        t.state = 'done'
        if self.stuck or self.engine_exc is not None:
            return
        pool = [o for o in self.threads if self._runnable(o) and not o.sleeping]
        if not pool:
            pool = [o for o in self.threads if self._runnable(o)]
            for o in pool:
                o.sleeping = False
        if not pool:
            if all(o.state == 'done' for o in self.threads):
                self._finish()
            else:
                self.stuck = 'deadlock: every live thread is blocked'
                self._finish()
            return
        try:
            nxt = self._choose(pool, after=t)
        except EngineControl as e:
            self.engine_exc = e
            self._finish()
            return
        self.trace.append(nxt.tid)
        nxt.sem.release()

    # ---- worker side
    def _runner(self, t):
        _local.t = t
        t.sem.acquire()
        if t.kill:
            t.state = 'done'
            return
        sys.settrace(self._tracer)
        try:
            t.result = t.fn()
        except ThreadKill:
            sys.settrace(None)
            t.state = 'done'
            return
        except EngineControl as e:
            sys.settrace(None)
            t.state = 'done'
            self.engine_exc = e
            self._finish()
            return
        except BaseException as e:     # noqa: BLE001
            t.exc = e
        sys.settrace(None)
        self._exit(t)

    def _tracer(self, frame, event, arg):
        if frame.f_code.co_filename in self.traced:
            return self._ltrace
        return None

    def _ltrace(self, frame, event, arg):
        if event == 'line':
            t = getattr(_local, 't', None)
            if t is not None:
                self.line(t)
        return self._ltrace

    # ---- harness side
    def run(self):
        global CURRENT
        CURRENT = self
        for t in self.threads:
            t.thread = _threading.Thread(target=self._runner, args=(t,), daemon=True)
            t.thread.start()
        try:
            if self.threads:
                first = self._choose(list(self.threads), after=self.threads[-1])
                self.trace.append(first.tid)
                first.sem.release()
                self.ctrl.acquire()
        finally:
            self._unwind()
            CURRENT = None
        if self.engine_exc is not None:
            raise self.engine_exc
        if self.stuck:
            raise Stuck(self.stuck)

    def _unwind(self):
        for t in self.threads:            # one at a time: never two threads running
            if t.state != 'done':
                t.kill = True
                t.sem.release()
            if t.thread is not None:
                t.thread.join(timeout=5)
