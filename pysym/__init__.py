"""pysym - proxy-value symbolic execution of real Python code with z3."""
