"""Real-valued proxies: the exact-real stand-in for Python floats (DESIGN 3.1).

A SymReal wraps a z3 Real term.  Float constants met in the code are idealised
to the nearest rational with denominator <= 10**12 (so the literal 1e-6 is
10**-6).  Two models:
  * exact  (default): every operation is exact real arithmetic;
  * rounded (Explorer.rounding = True): every operation result is multiplied by
    (1 + d) with a fresh |d| <= 2**-53 - the standard model of IEEE-754 double
    round-to-nearest in the normal range (a sound over-approximation).
round() yields a fresh integer r with |r - x| <= 1/2.
"""
import fractions
import numbers

import z3

from . import core
from .core import SymBool, SymInt, Unmodelled

EPS = fractions.Fraction(1, 2 ** 53)
MARGIN = z3.RealVal('1/1000000')      # witnesses of real comparisons keep this distance from the boundary


def _ex():
    return core.cur()


def const(x):
    if isinstance(x, bool):
        x = int(x)
    if isinstance(x, int):
        return z3.RealVal(x)
    if isinstance(x, float):
        if x != x or x in (float('inf'), float('-inf')):
            raise Unmodelled('non-finite float in real arithmetic')
        f = fractions.Fraction(x).limit_denominator(10 ** 12)
        return z3.RealVal('%d/%d' % (f.numerator, f.denominator))
    if isinstance(x, fractions.Fraction):
        return z3.RealVal('%d/%d' % (x.numerator, x.denominator))
    return None


def to_expr(x):
    if isinstance(x, SymReal):
        return x.e
    if isinstance(x, SymInt):
        if x.w:
            raise Unmodelled('bit-vector integer in real arithmetic (run the job with width=0)')
        return z3.ToReal(x.e)
    if isinstance(x, SymBool):
        return z3.If(x.e, z3.RealVal(1), z3.RealVal(0))
    return const(x)


def to_real(x):
    e = to_expr(x)
    if e is None:
        raise Unmodelled('cannot convert %r to a real' % (x,))
    return SymReal(e)


def _round(e):
    """Apply the rounding model to an operation result."""
    ex = core.CUR
    if ex is None or not getattr(ex, 'rounding', False):
        return e
    name = ex.fresh_name('delta')
    d = ex.declare(name, 'real', lambda: z3.Real(name))
    ex.assume(z3.And(d >= -z3.RealVal('1/9007199254740992'), d <= z3.RealVal('1/9007199254740992')))
    return e * (1 + d)


class SymReal:
    __slots__ = ('e',)

    def __init__(self, e):
        self.e = e

    def _bin(self, o, f, swap=False):
        oe = to_expr(o)
        if oe is None:
            return NotImplemented
        a, b = (oe, self.e) if swap else (self.e, oe)
        return SymReal(_round(f(a, b)))

    def __add__(self, o):
        return self._bin(o, lambda a, b: a + b)

    def __radd__(self, o):
        return self._bin(o, lambda a, b: a + b, True)

    def __sub__(self, o):
        return self._bin(o, lambda a, b: a - b)

    def __rsub__(self, o):
        return self._bin(o, lambda a, b: a - b, True)

    def __mul__(self, o):
        return self._bin(o, lambda a, b: a * b)

    def __rmul__(self, o):
        return self._bin(o, lambda a, b: a * b, True)

    def _div(self, o, swap):
        oe = to_expr(o)
        if oe is None:
            return NotImplemented
        num, den = (oe, self.e) if swap else (self.e, oe)
        if bool(SymBool(den == 0, robust=(None, z3.Or(den <= -MARGIN, den >= MARGIN)))):
            raise ZeroDivisionError('float division by zero')
        return SymReal(_round(num / den))

    def __truediv__(self, o):
        return self._div(o, False)

    def __rtruediv__(self, o):
        return self._div(o, True)

    def __neg__(self):
        return SymReal(-self.e)

    def __pos__(self):
        return self

    def __abs__(self):
        return SymReal(z3.If(self.e >= 0, self.e, -self.e))

    def _cmp(self, o, f, kind):
        oe = to_expr(o)
        if oe is None:
            return NotImplemented
        d = self.e - oe
        lt, gt = d <= -MARGIN, d >= MARGIN
        robust = {'<': (lt, gt), '<=': (lt, gt), '>': (gt, lt), '>=': (gt, lt),
                  '==': (None, z3.Or(lt, gt)), '!=': (z3.Or(lt, gt), None)}[kind]
        return SymBool(f(self.e, oe), robust=robust)

    def __lt__(self, o):
        return self._cmp(o, lambda a, b: a < b, '<')

    def __le__(self, o):
        return self._cmp(o, lambda a, b: a <= b, '<=')

    def __gt__(self, o):
        return self._cmp(o, lambda a, b: a > b, '>')

    def __ge__(self, o):
        return self._cmp(o, lambda a, b: a >= b, '>=')

    def __eq__(self, o):
        r = self._cmp(o, lambda a, b: a == b, '==')
        return False if r is NotImplemented else r

    def __ne__(self, o):
        r = self._cmp(o, lambda a, b: a != b, '!=')
        return True if r is NotImplemented else r

    __hash__ = None

    def __bool__(self):
        return bool(self != 0)

    def __round__(self, ndigits=None):
        if ndigits is not None:
            if not isinstance(ndigits, int) or not 0 <= ndigits <= 15:
                raise Unmodelled('round(x, ndigits) with unusual ndigits')
            # a real within half a unit of the last kept decimal place
            ex = _ex()
            name = ex.fresh_name('roundn')
            r = ex.declare(name, 'real', lambda: z3.Real(name))
            half = z3.RealVal('1/%d' % (2 * 10 ** ndigits))
            ex.assume(z3.And(r - half <= self.e, self.e <= r + half))
            return SymReal(r)
        ex = _ex()
        name = ex.fresh_name('round')
        r = ex.declare(name, 'int', lambda: z3.Int(name))
        half = z3.RealVal('1/2')
        ex.assume(z3.And(z3.ToReal(r) - half <= self.e, self.e <= z3.ToReal(r) + half))
        return SymInt(r, -(2 ** 200), 2 ** 200, 0)

    def __trunc__(self):
        ex = _ex()
        name = ex.fresh_name('trunc')
        r = ex.declare(name, 'int', lambda: z3.Int(name))
        # truncation toward zero
        ex.assume(z3.If(self.e >= 0,
                        z3.And(z3.ToReal(r) <= self.e, self.e < z3.ToReal(r) + 1),
                        z3.And(z3.ToReal(r) >= self.e, self.e > z3.ToReal(r) - 1)))
        return SymInt(r, -(2 ** 200), 2 ** 200, 0)

    __int__ = __trunc__

    def __float__(self):
        raise Unmodelled('a real proxy reached a C boundary (float())')

    def __format__(self, spec):
        from . import tokens
        return tokens.format_real(self, spec)

    def __repr__(self):
        from . import tokens
        return tokens.format_real(self, '')

    __str__ = __repr__

    def is_integer(self):
        raise Unmodelled('is_integer on a real proxy')


numbers.Real.register(SymReal)


def int_truediv(a, b):
    return to_real(a) / b


def int_rtruediv(a, b):
    oe = to_expr(b)
    if oe is None:
        return NotImplemented
    return SymReal(oe) / a


def int_mul_float(a, f):
    return to_real(a) * f


def cmp_int_other(a, o, op):
    if isinstance(o, (float, SymReal, fractions.Fraction)):
        ra = to_real(a)
        return {'<': ra.__lt__, '<=': ra.__le__, '>': ra.__gt__, '>=': ra.__ge__,
                '==': ra.__eq__, '!=': ra.__ne__}[op](o)
    return NotImplemented


def norm_real(v, ev):
    if ev is None:
        return ('sym', str(v.e))
    r = ev(v.e)
    return float(r)
