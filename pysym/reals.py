"""Real-valued proxies (exact-real stand-in for Python floats) - see DESIGN 3.1.
Filled in for C13; until then any float arithmetic on a proxy is Unmodelled."""
from .core import Unmodelled


class SymReal:
    pass


def int_truediv(a, b):
    raise Unmodelled('true division on an integer proxy')


def int_rtruediv(a, b):
    raise Unmodelled('true division on an integer proxy')


def cmp_int_other(a, o, op):
    if isinstance(o, float):
        raise Unmodelled('comparison of an integer proxy with a float')
    return NotImplemented


def to_real(v):
    raise Unmodelled('int->real conversion')


def norm_real(v, ev):
    raise Unmodelled('real observable')
