#!/bin/sh
# Build the framework from files on disk only (offline): installs the z3 wheel
# from the local wheelhouse into /verif/.deps for /venv/bin/python (3.12, the
# interpreter the repository's test-suite uses).  Idempotent, lock-protected.
set -e
cd "$(dirname "$0")"
exec 9>.setup.lock
flock 9
if [ ! -f .deps/z3/__init__.py ]; then
    rm -rf .deps
    PIP_NO_INDEX=1 /venv/bin/python -m pip install -q --no-index \
        --find-links /opt/veriftools/wheels --target .deps z3-solver >&2
fi
PYTHONPATH=.deps /venv/bin/python -c "import z3" 
