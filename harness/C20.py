"""C20 - Backend selection and port-opening arguments resolve deterministically."""
import types

from pysym.cx import harness

DEFAULT_BACKEND = 'mido.backends.rtmidi'
OPS = ['open_input', 'open_output', 'open_ioport', 'get_input_names', 'get_output_names', 'get_ioport_names']
ENV_OF = {'open_input': 'MIDO_DEFAULT_INPUT', 'open_output': 'MIDO_DEFAULT_OUTPUT', 'open_ioport': 'MIDO_DEFAULT_IOPORT'}


class FakeEnv:
    """os double: environ (a dict) and getenv; anything else is not modelled."""

    def __init__(self, d):
        self.environ = d

    def getenv(self, key, default=None):
        return self.environ.get(key, default)

    def __getattr__(self, k):
        from pysym.core import Unmodelled
        raise Unmodelled('os.%s is not modelled by the harness double' % k)


class FakeImporter:
    def __init__(self, modules):
        self.modules = modules
        self.calls = []

    def import_module(self, name, package=None):
        self.calls.append(name)
        if name not in self.modules:
            raise ModuleNotFoundError(name)
        return self.modules[name]

    def __getattr__(self, k):
        from pysym.core import Unmodelled
        raise Unmodelled('importlib.%s is not modelled by the harness double' % k)


def make_module(has_ioport, has_get_devices, devices, log):
    m = types.SimpleNamespace()

    def cls(kind):
        class Port:
            def __init__(self, name=None, **kwargs):
                self.kind, self.name, self.kwargs = kind, name, dict(kwargs)
                self.closed = False
                self._messages = []
                log.append((kind, name, dict(kwargs)))

            def close(self):
                self.closed = True
        Port.__name__ = kind
        return Port
    m.Input, m.Output = cls('Input'), cls('Output')
    if has_ioport:
        m.IOPort = cls('IOPort')
    if has_get_devices:
        def get_devices(**kwargs):
            log.append(('get_devices', None, dict(kwargs)))
            return [dict(d) for d in devices]
        m.get_devices = get_devices
    return m


DEVICE_LISTS = [
    [],
    [{'name': 'A', 'is_input': True, 'is_output': False}, {'name': 'A', 'is_input': False, 'is_output': True},
     {'name': 'B', 'is_input': True, 'is_output': False}],
    [{'name': 'B', 'is_input': True, 'is_output': True}, {'name': 'A', 'is_input': True, 'is_output': True},
     {'name': 'B', 'is_input': True, 'is_output': True}],
    [{'name': 'X', 'is_input': False, 'is_output': True}, {'name': 'Y', 'is_input': True, 'is_output': False},
     {'name': 'X', 'is_input': True, 'is_output': False}],
    # the shared names come in a different order (and number) on the input and on the output side
    [{'name': 'S', 'is_input': True, 'is_output': False}, {'name': 'K', 'is_input': True, 'is_output': True},
     {'name': 'S', 'is_input': False, 'is_output': True}],
    [{'name': 'K', 'is_input': False, 'is_output': True}, {'name': 'S', 'is_input': True, 'is_output': True},
     {'name': 'K', 'is_input': True, 'is_output': False}, {'name': 'S', 'is_input': True, 'is_output': False}],
]


@harness(labels=['lazy-import', 'module-and-api-resolution', 'constructor-calls', 'name-listing', 'import-once',
                 'configuration-usable'])
def resolve(cx, op, name=None, api=None, envb=None):
    import mido.backends.backend as bk
    from mido import ports
    # ---- configuration (every dimension chosen by a certified fork; the job
    #      parameters name/api/envb only split the grid over worker processes)
    name_arg = [None, 'mod', 'mod/NAMEAPI'][cx.choice('name', 3) if name is None else name]
    api_arg = [None, 'KWAPI'][cx.choice('api', 2) if api is None else api]
    env_backend = [None, 'envmod', 'envmod/ENVAPI'][cx.choice('MIDO_BACKEND', 3) if envb is None else envb]
    use_environ = cx.bool('use_environ')
    load = cx.bool('load')
    explicit_name = [None, 'explicit'][cx.choice('port_name', 2)]
    call_api = [None, 'CALLAPI'][cx.choice('call_api', 2)]
    # (dimensions an operation cannot depend on are fixed, not multiplied in)
    has_ioport = cx.bool('has_IOPort') if op == 'open_ioport' else True
    has_get_devices = cx.bool('has_get_devices') if op.startswith('get_') else True
    env = {}
    if env_backend is not None:
        env['MIDO_BACKEND'] = env_backend
    relevant = {'open_input': ['MIDO_DEFAULT_INPUT'], 'open_output': ['MIDO_DEFAULT_OUTPUT'],
                'open_ioport': ['MIDO_DEFAULT_INPUT', 'MIDO_DEFAULT_OUTPUT', 'MIDO_DEFAULT_IOPORT']}.get(op, [])
    for var in ('MIDO_DEFAULT_INPUT', 'MIDO_DEFAULT_OUTPUT', 'MIDO_DEFAULT_IOPORT'):
        if var in relevant:
            v = [None, 'env_' + var[13:].lower(), '', ' padded ' + var[13:].lower() + ' '][cx.choice(var, 4)]
        else:
            v = 'unrelated_' + var[13:].lower()        # must never be picked up
        if v is not None:
            env[var] = v
    devices = DEVICE_LISTS[cx.choice('devices', len(DEVICE_LISTS))] if op.startswith('get_') else []
    log = []
    module = make_module(has_ioport, has_get_devices, devices, log)
    importer = FakeImporter({'mod': module, 'envmod': module, DEFAULT_BACKEND: module})
    old = (bk.importlib, bk.os)
    bk.importlib, bk.os = importer, FakeEnv(env)
    try:
        # ---- reference resolution (the property's precedence rules)
        if name_arg is not None:
            want_mod, _, name_api = name_arg.partition('/')
        elif env_backend is not None:
            want_mod, _, name_api = env_backend.partition('/')
        else:
            want_mod, name_api = DEFAULT_BACKEND, ''
        want_api = api_arg or name_api or None
        b, exc = cx.raises(lambda: bk.Backend(name_arg, api=api_arg, load=load, use_environ=use_environ),
                           label='configuration-usable')
        if exc is not None:
            return
        cx.check(importer.calls == ([want_mod] if load else []), 'lazy-import')
        cx.check(b.loaded == load, 'lazy-import')
        kw = {}
        if call_api:
            kw['api'] = call_api
        eff_api = call_api or want_api
        if op.startswith('open_'):
            flags = cx.choice('flags', 3)           # pass-through arguments: none / all set / mixed
            extra = {'virtual': flags == 1}
            if op != 'open_output':
                extra['callback'] = 'cb' if flags >= 1 else None
            if op != 'open_input':
                extra['autoreset'] = flags == 2
            port, exc = cx.raises(lambda: getattr(b, op)(explicit_name, **extra, **kw), label='configuration-usable')
            if exc is not None:
                return
            envname = (env.get(ENV_OF[op]) if use_environ else None)
            if op == 'open_ioport':
                envname = envname or None
            want_name = explicit_name if explicit_name is not None else envname
            want_kw = dict(extra)
            if eff_api:
                want_kw['api'] = eff_api
            if op == 'open_ioport' and not has_ioport:
                if want_name:
                    in_name = out_name = want_name
                else:
                    in_name = env.get('MIDO_DEFAULT_INPUT') if use_environ else None
                    out_name = env.get('MIDO_DEFAULT_OUTPUT') if use_environ else None
                calls = [c for c in log if c[0] in ('Input', 'Output')]
                cx.check(isinstance(port, ports.IOPort) and port.input.kind == 'Input' and port.output.kind == 'Output'
                         and calls == [('Input', in_name, want_kw), ('Output', out_name, want_kw)], 'constructor-calls')
            else:
                kind = {'open_input': 'Input', 'open_output': 'Output', 'open_ioport': 'IOPort'}[op]
                cx.check(getattr(port, 'kind', None) == kind and log == [(kind, want_name, want_kw)], 'constructor-calls')
        else:
            names, exc = cx.raises(lambda: getattr(b, op)(**kw), label='configuration-usable')
            if exc is not None:
                return
            if has_get_devices:
                q = [c for c in log if c[0] == 'get_devices']
                cx.check(len(q) >= 1 and all(c[2] == ({'api': eff_api} if eff_api else {}) for c in q),
                         'constructor-calls')
            else:
                cx.check(log == [], 'constructor-calls')
            devs = devices if has_get_devices else []
            ins = [d['name'] for d in devs if d['is_input']]
            outs = [d['name'] for d in devs if d['is_output']]
            want = {'get_input_names': ins, 'get_output_names': outs,
                    'get_ioport_names': [n for n in ins if n in set(outs)]}[op]
            cx.check(names == want, 'name-listing')
        cx.check(importer.calls == [want_mod], 'module-and-api-resolution')
        cx.check((b.api or None) == want_api and b.name == want_mod, 'module-and-api-resolution')
        # a second use does not import again
        n = len(importer.calls)
        _ = b.module
        b.load()
        cx.check(len(importer.calls) == n and b.loaded, 'import-once')
        cx.observe('calls', [(c[0], c[1], sorted(c[2])) for c in log])
    finally:
        bk.importlib, bk.os = old


@harness(labels=['set_backend-rebinds', 'set_backend-lazy'])
def set_backend(cx):
    import mido
    import mido.backends.backend as bk
    log = []
    module = make_module(cx.bool('has_IOPort'), True, DEVICE_LISTS[1], log)
    importer = FakeImporter({'mod': module, DEFAULT_BACKEND: module})
    env = {}
    if cx.bool('env_input'):
        env['MIDO_DEFAULT_INPUT'] = 'env_in'
    saved = {k: getattr(mido, k) for k in dir(mido) if k.split('_')[0] in ('open', 'get') or k == 'backend'}
    old = (bk.importlib, bk.os)
    bk.importlib, bk.os = importer, FakeEnv(env)
    try:
        how = cx.choice('how', 3)
        load = cx.bool('load')
        if how == 0:
            mido.set_backend('mod/API', load=load)
        elif how == 1:
            mido.set_backend(bk.Backend('mod', api='API', load=load))
        else:
            mido.set_backend('mod', load=load)
        b = mido.backend
        cx.check(isinstance(b, bk.Backend) and b.name == 'mod' and b.api == ('API' if how < 2 else None),
                 'set_backend-rebinds')
        cx.check(importer.calls == (['mod'] if load else []), 'set_backend-lazy')
        for fn in ('open_input', 'open_output', 'open_ioport', 'get_input_names', 'get_output_names',
                   'get_ioport_names'):
            f = getattr(mido, fn)
            cx.check(getattr(f, '__self__', None) is b and f.__name__ == fn, 'set_backend-rebinds')
        p = mido.open_input()
        cx.check(p.kind == 'Input' and p.name == env.get('MIDO_DEFAULT_INPUT') and
                 p.kwargs.get('api') == ('API' if how < 2 else None) and importer.calls == ['mod'],
                 'set_backend-rebinds')
        cx.check(mido.get_input_names() == ['A', 'B'], 'set_backend-rebinds')
    finally:
        bk.importlib, bk.os = old
        for k, v in saved.items():
            setattr(mido, k, v)


BOUNDS = {
    'quick': 'the full finite grid, every point a solver-certified fork: backend name {absent, module, module/API} x api keyword '
             '{absent, given} x MIDO_BACKEND {unset, module, module/API} x use_environ x load x explicit port name x api= at the '
             'call x each MIDO_DEFAULT_* {unset, set, empty, set with surrounding blanks} x module with/without IOPort and get_devices x virtual/callback/'
             'autoreset x 6 device lists (duplicates, split in/out entries, different input/output orders) x the six open_*/get_*_names operations; set_backend '
             'by name, name/API and Backend object',
    'thorough': 'same grid (it is finite and covered completely)',
}
OUTSIDE = 'real backend modules; on this property the solver only certifies the enumeration of a finite grid (said plainly)'
ASSUMPTIONS = ['importlib and os are replaced by recording doubles inside mido.backends.backend',
               'reference resolver written from the property text in harness/C20.py']


def JOBS(tier):
    jobs = [(resolve, {'op': op}, {'cost': 10}) for op in OPS if op != 'open_ioport']
    for n in range(3):
        for a in range(2):
            for e in range(3):
                jobs.append((resolve, {'op': 'open_ioport', 'name': n, 'api': a, 'envb': e}, {'cost': 100}))
    jobs.append((set_backend, {}, {}))
    return jobs
