"""C01 - Message byte codec round-trips every valid message (DESIGN 4/C01)."""
from pysym.cx import harness

from .common import CHANNEL_TYPES, MSG, NONSYSEX, RANGE, WIDE, expected_data_bytes, in_range

SEPS = [' ', '', ':', '\n', '\t', ', ', '-']


@harness(labels=['accepted=>in-range', 'rejected=>out-of-range', 'length', 'status', 'data<128',
                 'layout', 'roundtrip-eq', 'roundtrip-attrs', 'time-identity', 'bin', 'from-bin',
                 'from-tuple', 'ctor', 'encoding-is-a-fresh-value'])
def codec_rt(cx, type, time_kind='opaque'):
    import mido
    status, length, attrs = MSG[type]
    vals = {a: cx.int(a, -WIDE, WIDE) for a in attrs}
    # time: an opaque token (any int/float object) or a symbolic integer of either sign
    t = cx.opaque('time') if time_kind == 'opaque' else cx.int('time', -WIDE, WIDE)
    ok = cx.And(*[in_range(cx, a, vals[a]) for a in attrs])
    msg, exc = cx.raises(lambda: mido.Message(type, time=t, **vals), ValueError, label='ctor')
    if exc is not None:
        cx.check(cx.Not(ok), 'rejected=>out-of-range')
        return
    cx.check(ok, 'accepted=>in-range')
    b = msg.bytes()
    cx.observe('bytes', b)
    cx.check(len(b) == length and len(msg) == length, 'length')
    chan = vals['channel'] if 'channel' in vals else 0
    cx.check(cx.And(cx.eq(b[0], status + chan), b[0] >= 0x80), 'status')
    cx.check(cx.And(*[cx.And(0 <= x, x <= 127) for x in b[1:]]), 'data<128')
    cx.check(expected_data_bytes(cx, type, vals)(b[1:]), 'layout')
    m2 = mido.Message.from_bytes(b, time=t)
    cx.observe('decoded', vars(m2))
    cx.check(m2 == msg, 'roundtrip-eq')            # the real __eq__
    cx.check(cx.And(m2.type == type, set(vars(m2)) == set(attrs) | {'type', 'time'},
                    *[cx.eq(getattr(m2, a), vals[a]) for a in attrs]), 'roundtrip-attrs')
    cx.check(cx.And(cx.eq(m2.time, t), cx.eq(msg.time, t)), 'time-identity')   # (for the opaque token == is identity)
    # a caller that changes a returned encoding must not change what is encoded next (here or elsewhere)
    b.append(0x55)
    b[0] = 0
    fresh = msg.bytes()
    other = mido.Message(type, **{a: vals[a] for a in attrs}).bytes()
    cx.check(len(fresh) == length and cx.eq(fresh[0], status + chan) and len(other) == length and
             cx.eq(list(other), list(fresh)), 'encoding-is-a-fresh-value')
    b = fresh
    mb = msg.bin()
    cx.check(cx.eq(list(mb), b), 'bin')
    cx.check(mido.Message.from_bytes(mb, time=t) == msg, 'from-bin')
    cx.check(mido.Message.from_bytes(tuple(b), time=t) == msg, 'from-tuple')


@harness(labels=['ctor', 'length', 'frame', 'payload', 'roundtrip-eq', 'roundtrip-data', 'time-identity',
                 'rejected=>out-of-range', 'accepted=>in-range'])
def codec_rt_sysex(cx, L):
    import mido
    data = [cx.int('d%d' % i, -WIDE, WIDE) for i in range(L)]
    t = cx.opaque('time')
    ok = cx.And(*[cx.And(0 <= x, x <= 127) for x in data])
    msg, exc = cx.raises(lambda: mido.Message('sysex', data=data, time=t), ValueError, label='ctor')
    if exc is not None:
        cx.check(cx.Not(ok), 'rejected=>out-of-range')
        return
    cx.check(ok, 'accepted=>in-range')
    b = msg.bytes()
    cx.observe('bytes', b)
    cx.check(len(b) == L + 2 and len(msg) == L + 2, 'length')
    cx.check(cx.And(cx.eq(b[0], 0xF0), cx.eq(b[-1], 0xF7)), 'frame')
    cx.check(cx.eq(b[1:-1], data), 'payload')
    for src in (b, msg.bin(), tuple(b)):
        m2 = mido.Message.from_bytes(src, time=t)
        cx.check(m2 == msg, 'roundtrip-eq')
        cx.check(cx.And(m2.type == 'sysex', cx.eq(list(m2.data), data)), 'roundtrip-data')
        cx.check(m2.time == t, 'time-identity')
    cx.observe('decoded', list(m2.data))


@harness(labels=['hex-shape', 'hex-roundtrip', 'time-identity'])
def hex_rt(cx, type, L=0):
    """hex() -> from_hex() for every separator of the menu; two-digit hex
    rendering of a byte and its parsing are abstracted as an inverse pair
    (pysym.tokens), everything around them is the real code."""
    import mido
    status, length, attrs = MSG[type]
    t = cx.opaque('time')
    if type == 'sysex':
        vals = {'data': [cx.int('d%d' % i, 0, 127) for i in range(L)]}
    else:
        vals = {a: cx.int(a, *RANGE[a]) for a in attrs}
    msg = mido.Message(type, time=t, **vals)
    si = cx.choice('sep', len(SEPS) + 1)
    if si == len(SEPS):
        text = msg.hex()
        m2 = mido.Message.from_hex(text, time=t)
        sep = ' '
    else:
        sep = SEPS[si]
        text = msg.hex(sep)
        m2 = mido.Message.from_hex(text, time=t, sep=sep) if sep.strip() else \
            mido.Message.from_hex(text, time=t)
    cx.observe('decoded', vars(m2))
    n = len(msg)
    cx.check(text.count(sep) >= (n - 1 if sep else 0), 'hex-shape')
    cx.check(m2 == msg, 'hex-roundtrip')
    cx.check(m2.time == t, 'time-identity')


BOUNDS = {
    'quick': 'all 17 non-sysex types with every value attribute symbolic in [-2^40, 2^40] (covers the whole '
             '1.33M valid-message space and the reject region); sysex payload length 0..8 with every item '
             'symbolic in [-2^40, 2^40]; hex()/from_hex for every type (sysex L<=4) x 8 separator choices; '
             'time is an opaque token (any int/float object) and, separately, a symbolic integer over +-2^40; a returned encoding is mutated by the caller before the next one is taken',
    'thorough': 'as quick, sysex payload lengths 0..64 and 127,128,129,255,256,512 (every item symbolic over +-2^40), hex sysex L<=32',
}
OUTSIDE = 'sysex payloads longer than the stated length; float-valued attributes (C03); two-digit hex ' \
          'formatting/parsing of one byte is a trusted inverse pair'
ASSUMPTIONS = [
    'CPython semantics of int arithmetic are modelled by 64-bit bit-vectors guarded by interval analysis (overflow => INCONCLUSIVE)',
    'module-level lookup tables are read from the real objects each run (LookupProxy)',
    "format(b,'02X') and bytearray.fromhex are mutually inverse on 0..255 (tokens)",
    'reference layout (status table, 14-bit little-endian, nibble packing) written from the MIDI 1.0 spec in harness/common.py',
]


def JOBS(tier):
    jobs = []
    for t in NONSYSEX:
        jobs.append((codec_rt, {'type': t}, {}))
        jobs.append((codec_rt, {'type': t, 'time_kind': 'int'}, {}))
    lens = list(range(0, 9)) if tier == 'quick' else list(range(0, 65)) + [127, 128, 129, 255, 256, 512]
    for L in lens:
        jobs.append((codec_rt_sysex, {'L': L}, {'cost': L}))
    for t in NONSYSEX:
        jobs.append((hex_rt, {'type': t}, {}))
    for L in range(0, (4 if tier == 'quick' else 32) + 1):
        jobs.append((hex_rt, {'type': 'sysex', 'L': L}, {'cost': L}))
    return jobs
