"""C17 - Text encoding follows the file charset and never leaks out of a call."""
import io

from pysym.cx import harness

from . import smf

CHARSETS = ['latin1', 'utf-8', 'cp1252', 'shift_jis', 'utf-16', 'ascii', 'cp437', 'utf-32-be']
TEXTS = {
    'latin1': ['', 'abc', 'é\xff', 'Ünïcödé' * 20],
    'utf-8': ['', 'abc', 'é', '日本語', '\U0001F3B5 music', 'e\u0301 decomposed', 'é' * 100],
    'cp1252': ['', 'abc', '€uro', 'œ™'],
    'shift_jis': ['', 'abc', '日本語', 'ｶﾀｶﾅ', '\u212b \uff21'],
    'utf-16': ['', 'abc', 'é日', '\U0001F3B5', 'A\u030a e\u0301'],
    'ascii': ['', 'abc', '~!'],
    'cp437': ['', 'abc', '░▒▓'],
    'utf-32-be': ['', 'a', 'é日\U0001F3B5'],
}
TEXT_KINDS = ['text', 'copyright', 'track_name', 'instrument_name', 'lyrics', 'marker', 'cue_marker', 'device_name']


def default_in_force(cx, mido):
    """The default charset is in force again (observable through the public
    API: a text meta message encodes 'é' as the single latin1 byte E9 and
    decodes E9 back)."""
    from mido.midifiles import meta
    try:
        b = mido.MetaMessage('text', text='é').bytes()
        dec = mido.MetaMessage.from_bytes([0xFF, 0x01, 0x01, 0xE9])
    except (UnicodeError, LookupError):
        return False                 # another charset is still in force
    internal = getattr(meta, '_charset', 'latin1')
    return list(b) == [0xFF, 0x01, 0x01, 0xE9] and dec.text == 'é' and internal == 'latin1'


def _valid_file(cx, mido, charset, text):
    tr = mido.MidiTrack([mido.Message('note_on', note=1, time=3),
                         mido.MetaMessage('track_name', name=text, time=200),
                         mido.Message('note_off', note=1, time=5),
                         mido.MetaMessage('lyrics', text=text, time=0)])
    mid = mido.MidiFile(type=1, ticks_per_beat=96, charset=charset, tracks=[tr])
    f = smf.out_file(cx)
    mid.save(file=f)
    return [int(b) for b in smf.file_bytes(cx, f)]


@harness(labels=['charset-restored-after-load', 'load-outcome'])
def fault_load(cx, charset, fault):
    """A load that fails (or succeeds) at any point leaves latin1 in force."""
    import mido
    text = TEXTS[charset][2]         # short and (where the charset allows) non-ASCII
    data = _valid_file(cx, mido, charset, text)
    if fault == 'truncate':
        cut = cx.int('cut', 0, len(data))
        f = smf.in_file(cx, data) if not cx.symbolic else __import__('pysym.stubs', fromlist=['x']).SymFile(data, limit=cut)
        if not cx.symbolic:
            f = io.BytesIO(bytes(data[:cut]))
    elif fault == 'substitute':
        off = cx.choice('off', len(data))
        b = cx.int('byte', 0, 255)
        data = data[:off] + [b] + data[off + 1:]
        f = smf.in_file(cx, data)
    else:
        n = int(fault[4:])
        body = [cx.int('b%d' % i, 0, 255) for i in range(n)]
        data = data[:18] + [0, 0, 0, n] + body
        f = smf.in_file(cx, data)
    _, exc = cx.raises(lambda: mido.MidiFile(file=f, charset=charset), Exception, label='load-outcome')
    cx.observe('failed', exc is not None)
    cx.check(default_in_force(cx, mido), 'charset-restored-after-load')


BAD = ['negative', 'float', 'realtime', 'unencodable', 'none-time', 'bad-data', 'unknown-charset']


@harness(labels=['save-raised', 'charset-restored-after-save'])
def fault_save(cx, charset, n, ntracks):
    """The k-th message (k symbolic) of a file cannot be stored; save raises;
    the default charset is back in force."""
    import mido
    text = TEXTS[charset][1]
    k = cx.choice('k', n)
    bad = BAD[cx.choice('bad', len(BAD))]
    tracks = []
    for ti in range(ntracks):
        tr = mido.MidiTrack()
        for i in range(n):
            if i == k and ti == ntracks - 1:
                if bad == 'negative':
                    m = mido.Message('note_on', time=cx.int('neg', -1000, -1))
                elif bad == 'float':
                    m = mido.Message('note_on', time=1.5)
                elif bad == 'realtime':
                    m = mido.Message('clock', time=0)
                elif bad == 'unencodable':
                    m = mido.MetaMessage('text', text='\U0001F3B5☃' if charset not in ('utf-8', 'utf-16', 'utf-32-be')
                                         else '\udc80', time=0)
                elif bad == 'none-time':
                    m = mido.Message('note_on')
                    vars(m)['time'] = None
                elif bad == 'unknown-charset':
                    m = mido.MetaMessage('text', text='é', time=0)
                else:
                    m = mido.Message('note_on')
                    vars(m)['note'] = 300
            else:
                m = mido.MetaMessage('marker', text=text, time=i)
            tr.append(m)
        tracks.append(tr)
    mid = mido.MidiFile(type=1, ticks_per_beat=96, charset=charset, tracks=tracks)
    if bad == 'unknown-charset':
        mid.charset = 'utf8-typo'                    # a charset name no codec answers to
        data = _valid_file(cx, mido, charset, text)
        _, e0 = cx.raises(lambda: mido.MidiFile(file=smf.in_file(cx, data), charset='no-such-charset'), Exception,
                          label='save-raised')
        cx.check(default_in_force(cx, mido), 'charset-restored-after-save')
    _, exc = cx.raises(lambda: mid.save(file=smf.out_file(cx)), Exception, label='save-raised')
    cx.check(exc is not None, 'save-raised')
    cx.check(default_in_force(cx, mido), 'charset-restored-after-save')


@harness(labels=['file-bytes=text.encode(charset)', 'text-survives', 'charset-restored', 'nested-calls'])
def charset_rt(cx, charset):
    import mido
    texts = TEXTS[charset]
    text = texts[cx.choice('text', len(texts))]
    kind = TEXT_KINDS[cx.choice('kind', len(TEXT_KINDS))]
    attr = 'name' if kind in ('track_name', 'instrument_name', 'device_name') else 'text'
    msg = mido.MetaMessage(kind, time=cx.int('dt', 0, 2 ** 20), **{attr: text})
    if cx.bool('charset_assigned_later'):
        # the charset attribute is public and may be set after construction
        mid = mido.MidiFile(type=1, ticks_per_beat=96, charset=CHARSETS[(CHARSETS.index(charset) + 1) % len(CHARSETS)],
                            tracks=[mido.MidiTrack([msg])])
        mid.charset = charset
    else:
        mid = mido.MidiFile(type=1, ticks_per_beat=96, charset=charset, tracks=[mido.MidiTrack([msg])])
    f = smf.out_file(cx)
    mid.save(file=f)
    data = smf.file_bytes(cx, f)
    cx.check(default_in_force(cx, mido), 'charset-restored')
    fmt, ntr, div, tracks, notes = smf.ref_decode(cx, data, minimal=True)
    payload = [int(x) for x in tracks[0][0][3]]
    cx.check(payload == list(text.encode(charset)), 'file-bytes=text.encode(charset)')
    # (clip=True only concerns out-of-range data bytes of channel messages: this file has none)
    back = mido.MidiFile(file=smf.in_file(cx, data), charset=charset, clip=bool(cx.bool('clip')))
    cx.check(getattr(back.tracks[0][0], attr) == text and back.tracks[0][0].type == kind, 'text-survives')
    cx.check(default_in_force(cx, mido), 'charset-restored')
    # alternating / nested use of two charsets
    other = CHARSETS[cx.choice('other', len(CHARSETS))]
    t2 = TEXTS[other][1]
    mid2 = mido.MidiFile(type=1, charset=other, tracks=[mido.MidiTrack([mido.MetaMessage('text', text=t2)])])
    f2 = smf.out_file(cx)
    mid2.save(file=f2)
    again = mido.MidiFile(file=smf.in_file(cx, data), charset=charset)
    back2 = mido.MidiFile(file=smf.in_file(cx, smf.file_bytes(cx, f2)), charset=other)
    cx.check(getattr(again.tracks[0][0], attr) == text and back2.tracks[0][0].text == t2 and
             default_in_force(cx, mido), 'nested-calls')
    cx.observe('payload_len', len(payload))


BOUNDS = {
    'quick': '8 charsets x 3-6 texts encodable in each x 8 text-carrying meta types (delta symbolic): file bytes == text.encode(c), '
             'load (with clip off and on) gives the text back, charset restored, alternating calls with a second charset; load faults: truncation at a '
             'SYMBOLIC offset 0..len, one SYMBOLIC byte substituted at every offset, track bodies of <=2 arbitrary bytes, for 3 '
             'charsets; save faults: the k-th message (k symbolic, 1-2 tracks) unstorable in 6 ways, or a charset name that no codec answers to, for 3 charsets',
    'thorough': 'load/save faults for all 8 charsets; track bodies of 3 arbitrary bytes',
}
OUTSIDE = 'text content and codec internals are C-level and concrete (menu); charsets beyond the menu'
ASSUMPTIONS = ['"default in force" is observed through MetaMessage encoding/decoding of E9 and (when present) meta._charset']


def JOBS(tier):
    quick = tier == 'quick'
    jobs = []
    for c in CHARSETS:
        jobs.append((charset_rt, {'charset': c}, {'cost': 5}))
    fl = ['utf-8', 'shift_jis', 'latin1'] if quick else CHARSETS
    for c in fl:
        jobs.append((fault_load, {'charset': c, 'fault': 'truncate'}, {'cost': 20}))
        jobs.append((fault_load, {'charset': c, 'fault': 'substitute'}, {'cost': 500}))
        for n in range(0, (2 if quick else 3) + 1):
            jobs.append((fault_load, {'charset': c, 'fault': 'body%d' % n}, {'cost': 20 ** n}))
        for n in (1, 3):
            for ntr in (1, 2):
                jobs.append((fault_save, {'charset': c, 'n': n, 'ntracks': ntr}, {}))
    return jobs
