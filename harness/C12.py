"""C12 - merge_tracks keeps every event at its absolute time."""
from pysym.cx import harness

D30 = 2 ** 30


def _mk(cx, mido, shape):
    """shape: list of tracks, each a string over n (note_on), t (text meta),
    e (end_of_track).  Every message gets a unique tag and a symbolic delta."""
    tracks = []
    src = []           # (tag, track index, index in track, abs formula, msg)
    tag = 0
    for ti, s in enumerate(shape):
        tr = mido.MidiTrack()
        now = 0
        for i, c in enumerate(s):
            d = cx.int('dt%d_%d' % (ti, i), 0, D30)
            now = now + d
            if c == 'n':
                m = mido.Message('note_on', note=tag, channel=ti, time=d)
            elif c == 't':
                m = mido.MetaMessage('text', text='tag%d' % tag, time=d)
            elif c == 'T':
                m = mido.MetaMessage('set_tempo', tempo=1000 + tag, time=d)
            else:
                m = mido.MetaMessage('end_of_track', time=d)
            tr.append(m)
            src.append((tag if c != 'e' else None, ti, i, now, m))
            tag += 1
        tracks.append((tr, now))
    return tracks, src


def _tag_of(m):
    if m.type == 'note_on':
        return m.note
    if m.type == 'text':
        return int(m.text[3:])
    if m.type == 'set_tempo':
        return m.tempo - 1000
    return None


@harness(labels=['result-is-track', 'exactly-the-non-eot-messages', 'attributes-kept', 'absolute-time-kept',
                 'ordered-time-track-index', 'single-trailing-eot', 'total-duration', 'inputs-untouched'])
def merge(cx, shape, skip_checks=False, via_file=False):
    import mido
    tracks, src = _mk(cx, mido, shape)
    snap = [[(m, dict(vars(m))) for m in tr] for tr, _ in tracks]
    tlist = [tr for tr, _ in tracks]
    if via_file:
        out = mido.MidiFile(type=1, tracks=tlist).merged_track
    else:
        out = mido.merge_tracks(tlist, skip_checks=skip_checks)
    cx.check(isinstance(out, mido.MidiTrack), 'result-is-track')
    cx.observe('merged', [vars(m) for m in out])
    body, last = list(out[:-1]), (out[-1] if len(out) else None)
    want = {s[0]: s for s in src if s[0] is not None}
    tags = [_tag_of(m) for m in body]
    cx.check(sorted(t for t in tags if t is not None) == sorted(want) and len(tags) == len(want),
             'exactly-the-non-eot-messages')
    if sorted(t for t in tags if t is not None) != sorted(want) or len(tags) != len(want):
        return
    now = 0
    prev = None
    for m, t in zip(body, tags):
        tag, ti, i, abs_src, orig = want[t]
        now = now + m.time
        va, vb = dict(vars(m)), dict(vars(orig))
        va.pop('time'), vb.pop('time')
        cx.check(type(m) is type(orig) and va == vb, 'attributes-kept')
        cx.check(cx.eq(now, abs_src), 'absolute-time-kept')
        cx.check(cx.And(m.time >= 0), 'absolute-time-kept')
        if prev is not None:
            pabs, pti, pi = prev
            cx.check(cx.Or(pabs < abs_src, cx.And(cx.eq(pabs, abs_src), (pti, pi) < (ti, i))),
                     'ordered-time-track-index')
        prev = (abs_src, ti, i)
    cx.check(last is not None and last.type == 'end_of_track' and
             all(m.type != 'end_of_track' for m in body), 'single-trailing-eot')
    if last is not None:
        total = now + last.time
        ends = [end for _, end in tracks]
        if ends:
            is_max = cx.And(cx.Or(*[cx.eq(total, e) for e in ends]), *[total >= e for e in ends])
        else:
            is_max = cx.eq(total, 0)
        cx.check(is_max, 'total-duration')
    cx.check(all(len(tr) == len(sn) and all(a is m and vars(a) == v and all(vars(a)[k] is v[k] for k in v)
                                            for a, (m, v) in zip(tr, sn))
                 for (tr, _), sn in zip(tracks, snap)), 'inputs-untouched')


SHARED_LAYOUTS = {
    'twice-in-track': ['AA'], 'track-times-two': ['ABAB'], 'same-track-listed-twice': ['AB', '=0'],
    'message-in-two-tracks': ['AB', 'B'], 'shared-meta': ['TA', 'TB'], 'three-times': ['A', 'BA', 'A'],
    'eot-shared': ['AE', 'BE'],
}


@harness(labels=['shared:every-occurrence-at-its-own-time', 'shared:single-trailing-eot', 'shared:total-duration',
                 'shared:inputs-untouched'])
def shared(cx, layout, skip_checks=False):
    """The same message OBJECT occurs more than once (track * 2, one meta message shared by two tracks, the same
    track listed twice): every occurrence is an event of its own, at its own absolute tick."""
    import mido
    objs = {'A': mido.Message('note_on', note=1, time=cx.int('a', 0, D30)),
            'B': mido.Message('note_on', note=2, time=cx.int('b', 0, D30)),
            'T': mido.MetaMessage('set_tempo', tempo=7, time=cx.int('c', 0, D30)),
            'E': mido.MetaMessage('end_of_track', time=cx.int('e', 0, D30))}
    before = {k: dict(vars(m)) for k, m in objs.items()}
    tlist = []
    for spec in SHARED_LAYOUTS[layout]:
        tlist.append(tlist[int(spec[1:])] if spec[0] == '=' else mido.MidiTrack(objs[c] for c in spec))
    occ, ends = [], []
    for ti, tr in enumerate(tlist):
        now = 0
        for i, m in enumerate(tr):
            now = now + m.time
            if m.type != 'end_of_track':
                occ.append(((now, ti, i), m))
        ends.append(now)
    occ.sort(key=lambda o: o[0])
    out = mido.merge_tracks(tlist, skip_checks=skip_checks)
    cx.observe('merged', [vars(m) for m in out])
    body, last = list(out[:-1]), (out[-1] if len(out) else None)
    ok = len(body) == len(occ)
    cx.check(ok, 'shared:every-occurrence-at-its-own-time')
    now = 0
    for m, (key, orig) in zip(body, occ):
        now = now + m.time
        va, vb = dict(vars(m)), dict(before[[k for k, o in objs.items() if o is orig][0]])
        va.pop('time'), vb.pop('time')
        cx.check(type(m) is type(orig) and va == vb and cx.eq(now, key[0]), 'shared:every-occurrence-at-its-own-time')
    cx.check(last is not None and last.type == 'end_of_track' and all(m.type != 'end_of_track' for m in body),
             'shared:single-trailing-eot')
    if last is not None and ok:
        total = now + last.time
        cx.check(cx.And(cx.Or(*[cx.eq(total, e) for e in ends]), *[total >= e for e in ends]), 'shared:total-duration')
    cx.check(all(vars(m) == before[k] and all(vars(m)[a] is before[k][a] for a in before[k]) for k, m in objs.items()),
             'shared:inputs-untouched')


BOUNDS = {
    'quick': 'every list of 0..3 tracks over the alphabet {note_on, text meta, set_tempo, end_of_track} with at most 3 messages per track '
             'and at most 5 in total (end_of_track missing, last, repeated, in the middle), every delta symbolic in [0, 2^30] so '
             'that all orderings and all tie patterns between tracks are chosen by the solver; skip_checks on and off; through '
             'MidiFile.merged_track for 2-track shapes; 7 layouts in which one message OBJECT occurs several times (track*2, '
             'shared meta message, the same track listed twice), deltas symbolic',
    'thorough': 'up to 6 messages in total, 3 per track',
}
OUTSIDE = 'more than 6 messages; negative or non-integer deltas; message kinds other than the three (merge does not look at them)'
ASSUMPTIONS = ['list.sort is a correct stable sort (its comparisons are driven by forks on the symbolic keys)']


def _shapes(max_total, max_per, max_tracks):
    import itertools
    alpha = 'ntTe'
    per = ['']
    for n in range(1, max_per + 1):
        per += [''.join(p) for p in itertools.product(alpha, repeat=n)]
    out = [[]]
    for k in range(1, max_tracks + 1):
        for combo in itertools.product(per, repeat=k):
            if sum(len(c) for c in combo) <= max_total:
                out.append(list(combo))
    return out


def _canon(shape):
    """n and t behave alike for merging: keep shapes up to renaming that keeps
    at least one of each kind somewhere."""
    return shape


def JOBS(tier):
    quick = tier == 'quick'
    jobs = []
    shapes = _shapes(5 if quick else 6, 3, 3)
    seen = set()
    for sh in shapes:
        # reduce the alphabet: after the first 't' of a shape further 't's add nothing new over 'n'
        key = tuple(sh)
        if key in seen:
            continue
        seen.add(key)
        n_t = sum(s.count('t') for s in sh)
        n_T = sum(s.count('T') for s in sh)
        tot = sum(len(s) for s in sh)
        if n_t > 1 or n_T > 1:
            continue
        if n_T and tot > (3 if tier == 'quick' else 5):
            continue            # set_tempo shapes: up to 3 messages in quick, 5 in thorough
        total = sum(len(s) for s in sh)
        jobs.append((merge, {'shape': sh}, {'cost': 3 ** total, 'width': 0}))
    for sh in (['n', 'n'], ['ne', 'tn'], ['nn', 'e'], ['nen', 'ne'], [], ['', ''], ['n', 'T'], ['nT', 'tn']):
        jobs.append((merge, {'shape': sh, 'skip_checks': True}, {'width': 0}))
        jobs.append((merge, {'shape': sh, 'via_file': True}, {'width': 0}))
    for layout in SHARED_LAYOUTS:
        for sk in (False, True):
            jobs.append((shared, {'layout': layout, 'skip_checks': sk}, {'width': 0}))
    return jobs
