"""C03 - No invalid message state is reachable through the checked API."""
from pysym.cx import harness

from .common import MSG, NONSYSEX, RANGE, WIDE, in_range

REJECT = (ValueError, TypeError, AttributeError)
ENTRIES = ['ctor', 'copy', 'setattr', 'from_dict', 'from_str']
ILL = [1.5, '1', None, [1], (1,), b'1', 1j, float('inf'), float('nan'), {}, object,
       # non-integers that are numerically EQUAL to a valid value or to a default (0, 64): still ill-typed
       0.0, 64.0, 1.0, 0j, 64 + 0j, -0.0]
ILL_TIME_OK = {0, 7, 8, 11, 12, 13, 16}          # floats (incl. inf, nan) are real numbers: accepted as time
UNKNOWN_NAMES = ['foo', 'Channel', 'data', 'note_', '', 'is_meta', '__class__', 'bytes', '_setattr',
                 # names that are attributes of OTHER message types
                 'channel', 'note', 'velocity', 'value', 'control', 'program', 'pitch', 'frame_type', 'frame_value',
                 'pos', 'song']


def _base(cx, mido, type_, skip=None):
    """A valid message of the type with every attribute symbolic in range."""
    attrs = MSG[type_][2]
    if type_ == 'sysex':
        vals = {'data': [cx.int('base_d%d' % i, 0, 127) for i in range(2)]}
    else:
        vals = {a: cx.int('base_' + a, *RANGE[a]) for a in attrs}
    t0 = cx.opaque('t0')
    return mido.Message(type_, time=t0, **vals), vals, t0


def _unchanged(m, snap):
    """Same attribute names, every value the same object or an equal one."""
    v = vars(m)
    if set(v) != set(snap):
        return False
    for k in snap:
        if v[k] is snap[k]:
            continue
        a, b = v[k], snap[k]
        if isinstance(a, tuple) and isinstance(b, tuple) and len(a) == len(b) and all(x is y for x, y in zip(a, b)):
            continue
        r = (a == b)
        if r is True:
            continue
        return False if r is False else bool(r)
    return True


def _apply(cx, mido, entry, type_, base, vals, t0, attr, value):
    """Run one entry point that sets `attr` to `value`; returns the call."""
    if entry == 'ctor':
        kw = dict(vals)
        kw['time'] = t0
        kw[attr] = value
        return lambda: mido.Message(type_, **kw)
    if entry == 'from_dict':
        d = dict(vals)
        d.update(type=type_, time=t0)
        d[attr] = value
        return lambda: mido.Message.from_dict(d)
    if entry == 'copy':
        return lambda: base.copy(**{attr: value})
    if entry == 'setattr':
        def f():
            setattr(base, attr, value)
            return base
        return f
    if entry == 'from_str':
        words = [type_]
        for a, v in vals.items():
            if a == attr:
                continue
            if a == 'data':
                words.append('data=(%s)' % ','.join(str(x) for x in v))
            else:
                words.append('%s=%s' % (a, v))
        if attr == 'data':
            words.append('data=(%s)' % ','.join(str(x) for x in value))
        else:
            words.append('%s=%s' % (attr, value))
        # a word that looks like a constructor argument must never switch the checks off
        extra = ['', 'skip_checks=1', 'skip_checks=0'][cx.choice('extra_word', 3)] if getattr(cx, 'extra_words', False) else ''
        cx.extra_word_used = bool(extra)
        if extra:
            words.insert(1 + cx.choice('extra_pos', len(words)), extra)
        text = ' '.join(words)
        return lambda: mido.Message.from_str(text)
    raise AssertionError(entry)


@harness(labels=['reject-type', 'rejected=>invalid', 'accepted=>valid', 'rejected-leaves-original',
                 'stored-value', 'others-kept', 'keys-fixed', 'original-kept'])
def int_attr(cx, type, attr, entry):
    """Target attribute symbolic over a wide range through one entry point."""
    import mido
    cx.extra_words = True
    base, vals, t0 = _base(cx, mido, type)
    v = cx.int('v', -WIDE, WIDE)
    ok = in_range(cx, attr, v)
    snap = dict(vars(base))
    res, exc = cx.raises(_apply(cx, mido, entry, type, base, vals, t0, attr, v), *REJECT, label='reject-type')
    if exc is not None:
        if not (entry == 'from_str' and getattr(cx, 'extra_word_used', False)):
            # (a from_str text carrying a skip_checks word is rejected whatever the value - and an implementation
            # may notice the word before or after it looks at the value: not judged here)
            cx.check(cx.Not(ok), 'rejected=>invalid')
        cx.check(_unchanged(base, snap), 'rejected-leaves-original')
        return
    cx.check(ok, 'accepted=>valid')
    cx.observe('vars', vars(res))
    cx.check(cx.eq(vars(res)[attr], v), 'stored-value')
    expect = dict(snap)
    if entry == 'from_str':
        expect['time'] = 0          # the text carries no time: default
    cx.check(cx.And(*[cx.eq(vars(res)[k], expect[k]) for k in snap if k != attr]), 'others-kept')
    cx.check(set(vars(res)) == set(snap) and res.type == type, 'keys-fixed')
    if entry != 'setattr':
        cx.check(_unchanged(base, snap), 'original-kept')


@harness(labels=['reject-type', 'rejected-leaves-original', 'time-accepts-reals', 'ill-typed-rejected'])
def ill_typed(cx, type, attr, entry):
    import mido
    base, vals, t0 = _base(cx, mido, type)
    k = cx.choice('ill', len(ILL))
    snap = dict(vars(base))
    res, exc = cx.raises(_apply(cx, mido, entry, type, base, vals, t0, attr, ILL[k]), *REJECT, label='reject-type')
    if attr == 'time' and k in ILL_TIME_OK:
        cx.check(exc is None and vars(res)['time'] is ILL[k], 'time-accepts-reals')
    else:
        cx.check(exc is not None, 'ill-typed-rejected')
        cx.check(_unchanged(base, snap), 'rejected-leaves-original')


@harness(labels=['reject-type', 'rejected=>invalid', 'accepted=>valid', 'rejected-leaves-original',
                 'stored-data', 'data-is-tuple'])
def sysex_data(cx, entry, L, container):
    """Sysex payload through every entry point and container kind; items wide."""
    import mido
    base, vals, t0 = _base(cx, mido, 'sysex')
    items = [cx.int('x%d' % i, -WIDE, WIDE) for i in range(L)]
    ok = cx.And(*[cx.And(0 <= x, x <= 127) for x in items])
    if container == 'list':
        value = list(items)
    elif container == 'tuple':
        value = tuple(items)
    elif container == 'gen':
        value = (x for x in items)
    elif container == 'sysexdata':
        from mido.messages.messages import SysexData
        value = SysexData(items)
    else:
        raise AssertionError(container)
    snap = dict(vars(base))
    if entry == 'iadd':
        def call():
            base.data += value
            return base
        expect = list(vals['data']) + items
    else:
        call = _apply(cx, mido, entry, 'sysex', base, vals, t0, 'data', value)
        expect = items
    res, exc = cx.raises(call, *REJECT, label='reject-type')
    if exc is not None:
        cx.check(cx.Not(ok), 'rejected=>invalid')
        cx.check(_unchanged(base, snap), 'rejected-leaves-original')
        return
    cx.check(ok, 'accepted=>valid')
    cx.observe('data', list(res.data))
    if not (entry in ('iadd', 'setattr') and container == 'gen'):
        # (a generator handed to += or to an assignment is consumed by the
        # validity check; the resulting state is still valid, which is all
        # the property asks)
        cx.check(cx.eq(list(res.data), expect), 'stored-data')
    cx.check(isinstance(res.data, tuple) and cx.And(*[cx.And(0 <= x, x <= 127) for x in res.data]),
             'data-is-tuple')


@harness(labels=['del-rejected', 'type-readonly', 'unknown-rejected', 'unchanged'])
def structure(cx, type, entry):
    """Deleting any attribute, assigning `type`, and unknown attribute names."""
    import mido
    base, vals, t0 = _base(cx, mido, type)
    snap = dict(vars(base))
    names = list(snap) + [u for u in UNKNOWN_NAMES if u not in snap]
    name = names[cx.choice('name', len(names))]
    v = cx.int('v', -WIDE, WIDE)
    if entry == 'del':
        _, exc = cx.raises(lambda: delattr(base, name), AttributeError, label='del-rejected')
        cx.check(exc is not None, 'del-rejected')
        # what dict() hands out is a copy: editing it never reaches the message
        d = base.dict()
        d[name if name else 'x'] = v
        d['type'] = 'note_on' if type != 'note_on' else 'clock'
        d.pop('time', None)
        cx.check(_unchanged(base, snap), 'del-rejected')
    elif entry == 'set_type':
        other = [t for t in MSG if t != type][cx.choice('other', len(MSG) - 1)]
        _, exc = cx.raises(lambda: setattr(base, 'type', other), AttributeError, label='type-readonly')
        cx.check(exc is not None, 'type-readonly')
        _, exc = cx.raises(lambda: base.copy(type=other), ValueError, label='type-readonly')
        cx.check(exc is not None, 'type-readonly')
    else:
        if name in snap:
            return
        if name == 'data' and type == 'sysex':
            return
        call = _apply(cx, mido, entry, type, base, vals, t0, name, v)
        _, exc = cx.raises(call, *REJECT, label='unknown-rejected')
        cx.check(exc is not None, 'unknown-rejected')
    cx.check(_unchanged(base, snap), 'unchanged')


@harness(labels=['reject-type', 'matches-reference'])
def history(cx, type, k):
    """k assignments (attribute chosen from the type's attributes + time +
    type + unknown, value symbolic) on one object; after every step the object
    equals the reference record that applies only the valid assignments."""
    import mido
    base, vals, t0 = _base(cx, mido, type)
    ref = dict(vars(base))
    names = [a for a in MSG[type][2]] + ['time', 'type', 'bogus']
    for step in range(k):
        name = names[cx.choice('n%d' % step, len(names))]
        v = cx.int('v%d' % step, -WIDE, WIDE)
        _, exc = cx.raises(lambda: setattr(base, name, v), *REJECT, label='reject-type')
        if name == 'time':
            valid = True
        elif name in ('type', 'bogus'):
            valid = False
        else:
            valid = in_range(cx, name, v)
        # decide validity on this path (forks) and update the reference
        if valid is True or (valid is not False and bool(valid)):
            ref[name] = v
            cx.check(exc is None, 'matches-reference')
        else:
            cx.check(exc is not None, 'matches-reference')
        cur = vars(base)
        cx.check(set(cur) == set(ref) and all(cur[n] is ref[n] for n in ref), 'matches-reference')
    cx.observe('final', vars(base))


BOUNDS = {
    'quick': 'every (type, value attribute) pair x 5 entry points (constructor, copy, attribute assignment, from_dict, '
             'from_str) with the target value symbolic in [-2^40, 2^40] and the other attributes symbolic in range; '
             '17-value ill-typed menu (incl. floats/complex numerically equal to valid values and defaults) per attribute (incl. time) and entry point; sysex data as list/tuple/generator/SysexData '
             'of length 0..4 with wide symbolic items through ctor/copy/setattr/from_dict/from_str/+=; del of every '
             'attribute, assignment to type, 20 foreign names (incl. every attribute name of the other message types, value symbolic); assignment histories of length <=3 on one object',
    'thorough': 'as quick with sysex length 0..6 and histories of length <=4',
}
OUTSIDE = 'skip_checks=True; writing through vars(msg); unknown *type names* (LookupError is judged in C14); ' \
          'ill-typed values beyond the menu; bool values (bool is an int subclass)'
ASSUMPTIONS = [
    'documented ranges as in docs/message_types.rst (harness/common.py RANGE)',
    'str(int)/int(str) are mutually inverse (tokens) for the from_str entry point',
]


def JOBS(tier):
    jobs = []
    pairs = [(t, a) for t in NONSYSEX for a in MSG[t][2]]
    for t, a in pairs:
        for e in ENTRIES:
            jobs.append((int_attr, {'type': t, 'attr': a, 'entry': e}, {}))
    for t, a in pairs + [(t, 'time') for t in ('note_on', 'sysex', 'clock', 'songpos')]:
        for e in ENTRIES[:4]:
            jobs.append((ill_typed, {'type': t, 'attr': a, 'entry': e}, {}))
    maxl = 4 if tier == 'quick' else 6
    for e in ENTRIES + ['iadd']:
        for c in ('list', 'tuple', 'gen', 'sysexdata'):
            if e == 'from_str' and c != 'list':
                continue
            for L in range(0, maxl + 1):
                if e == 'from_str' and L == 0:
                    continue     # empty sysex text is judged in C14
                jobs.append((sysex_data, {'entry': e, 'L': L, 'container': c}, {'cost': L}))
    for t in MSG:
        for e in ('del', 'set_type', 'ctor', 'copy', 'setattr', 'from_dict'):
            jobs.append((structure, {'type': t, 'entry': e}, {}))
    kmax = 3 if tier == 'quick' else 4
    for t in ('note_on', 'pitchwheel', 'quarter_frame', 'songpos', 'clock', 'program_change'):
        for k in range(1, kmax + 1):
            jobs.append((history, {'type': t, 'k': k}, {'cost': 10 * k}))
    return jobs
