"""C13 - Playback timing follows the tempo map."""
from pysym.cx import harness

D28 = 2 ** 28
TEMPO_MAX = 2 ** 24 - 1


def _file(cx, mido, shape, ftype=1, linear=False):
    """shape: list of tracks, each a string over n (note_on), T (set_tempo),
    x (text meta), e (end_of_track).  Deltas, tempos, ticks_per_beat symbolic."""
    tracks = []
    k = 0
    for ti, s in enumerate(shape):
        tr = mido.MidiTrack()
        for i, c in enumerate(s):
            d = cx.int('dt%d' % k, 0, D28)
            if c == 'n':
                m = mido.Message('note_on', note=k, channel=ti, time=d)
            elif c == 'T':
                tempo = [250000, 1000000, 0][cx.choice('tempo%d' % k, 3)] if linear else \
                    cx.int('tempo%d' % k, 0, TEMPO_MAX)
                m = mido.MetaMessage('set_tempo', tempo=tempo, time=d)
            elif c == 'x':
                m = mido.MetaMessage('text', text='t%d' % k, time=d)
            else:
                m = mido.MetaMessage('end_of_track', time=d)
            tr.append(m)
            k += 1
        tracks.append(tr)
    tpb = 96 if linear else cx.int('tpb', 1, 32767)
    return mido.MidiFile(type=ftype, ticks_per_beat=tpb, tracks=tracks), tpb


def _reference(cx, mido, mid, tpb):
    """[(message, cumulative seconds as an exact formula)] computed from the
    SOURCE tracks (not from merge_tracks): every non-end_of_track message at
    its own absolute tick, ordered by (tick, track, index); one final
    end_of_track at the end of the longest track; 500000 us/beat until a
    set_tempo, which governs only the ticks after it."""
    import z3
    from pysym import reals
    events = []
    ends = []
    for ti, tr in enumerate(mid.tracks):
        now = 0
        for i, m in enumerate(tr):
            now = now + m.time
            if m.type != 'end_of_track':
                events.append(((now, ti, i), m))
        ends.append(now)
    events.sort(key=lambda e: e[0])            # comparisons on symbolic ticks fork: every order is explored
    total = 0
    for e in ends:
        total = cx.ite(e > total, e, total) if cx.symbolic else max(e, total)
    seq = [(k[0], m) for k, m in events] + [(total, mido.MetaMessage('end_of_track'))]
    out = []
    tempo = 500000
    prev = 0
    cum = reals.SymReal(z3.RealVal(0)) if cx.symbolic else 0.0
    for tick, m in seq:
        if cx.symbolic:
            term = (reals.to_expr(tick) - reals.to_expr(prev)) * reals.to_expr(tempo) / \
                (z3.RealVal(1000000) * reals.to_expr(tpb))
            cum = reals.SymReal(cum.e + term)
        else:
            cum = cum + (tick - prev) * tempo / (1000000.0 * tpb)
        prev = tick
        out.append((m, cum))
        if m.type == 'set_tempo':
            tempo = m.tempo
    return out


def _same_but_time(a, b):
    va, vb = dict(vars(a)), dict(vars(b))
    va.pop('time'), vb.pop('time')
    return type(a) is type(b) and va == vb


@harness(labels=['same-messages-in-merged-order', 'cumulative-time=tempo-map-integral', 'length=last-cumulative',
                 'yields-copies'])
def iter_tempo(cx, shape, ulps=0):
    import mido
    mid, tpb = _file(cx, mido, shape)
    ref = _reference(cx, mido, mid, tpb)
    out = list(mid)
    cx.check(len(out) == len(ref) and all(_same_but_time(a, m) for a, (m, _) in zip(out, ref)),
             'same-messages-in-merged-order')
    cum = 0.0
    for a, (m, want) in zip(out, ref):
        cum = cum + a.time
        cx.check(cx.close(cum, want, ulps), 'cumulative-time=tempo-map-integral')
    cx.observe('times', [a.time for a in out])
    n = len(out)
    cx.check(cx.close(mid.length, ref[-1][1] if ref else 0.0, ulps + n), 'length=last-cumulative')
    originals = [m for tr in mid.tracks for m in tr]
    cx.check(all(all(a is not o for o in originals) for a in out), 'yields-copies')


def _judge_times(cx, mido, mid, tpb, tag):
    ref = _reference(cx, mido, mid, tpb)
    out = list(mid)
    cx.check(len(out) == len(ref) and all(_same_but_time(a, m) for a, (m, _) in zip(out, ref)), tag + 'messages')
    cum = 0.0
    for a, (m, want) in zip(out, ref):
        cum = cum + a.time
        cx.check(cx.close(cum, want, 0), tag + 'cumulative')
    cx.check(cx.close(mid.length, ref[-1][1] if ref else 0.0, len(out)), tag + 'length')


@harness(labels=['after-edit:messages', 'after-edit:cumulative', 'after-edit:length'])
def edited(cx, shape):
    """length, iteration and play() were already used once; then the file is changed IN PLACE (a delta, a tempo
    value, a message replaced by index, ticks_per_beat - the number of messages stays the same) and everything
    is judged again against the tempo map of the file as it is NOW."""
    import mido
    mid, tpb = _file(cx, mido, shape)
    mid.length
    list(mid)
    where = [(tr, i) for tr in mid.tracks for i in range(len(tr))]
    edit = cx.choice('edit', 4)
    if edit == 3:
        tpb = cx.int('tpb2', 1, 32767)
        mid.ticks_per_beat = tpb
    else:
        if not where:
            cx.assume(False)
        tr, i = where[cx.choice('at', len(where))]
        if edit == 0:
            tr[i].time = cx.int('new_dt', 0, D28)
        elif edit == 1:
            if tr[i].type != 'set_tempo':
                cx.assume(False)
            tr[i].tempo = cx.int('new_tempo', 0, TEMPO_MAX)
        else:
            tr[i] = tr[i].copy(time=cx.int('new_dt', 0, D28))
    _judge_times(cx, mido, mid, tpb, 'after-edit:')


@harness(labels=['type2-iter-refused', 'type2-length-refused', 'type2-play-refused'])
def type2(cx, shape):
    import mido
    mid, tpb = _file(cx, mido, shape, ftype=2)
    _, e = cx.raises(lambda: list(mid), TypeError, ValueError, label='type2-iter-refused')
    cx.check(e is not None, 'type2-iter-refused')
    _, e = cx.raises(lambda: mid.length, TypeError, ValueError, label='type2-length-refused')
    cx.check(e is not None, 'type2-length-refused')
    _, e = cx.raises(lambda: list(mid.play(now=lambda: 0.0)), TypeError, ValueError, label='type2-play-refused')
    cx.check(e is not None, 'type2-play-refused')


class FakeTime:
    """Clock double: now() returns the current instant; sleep(d) is recorded
    and advances the clock by d plus an arbitrary non-negative oversleep."""

    def __init__(self, cx, start):
        self.cx = cx
        self.t = start
        self.sleeps = []
        self.k = 0

    def now(self):
        return self.t

    time = monotonic = perf_counter = now

    def __getattr__(self, name):
        from pysym.core import Unmodelled
        raise Unmodelled('%s.%s is not modelled by the harness double' % (type(self).__name__, name))

    def sleep(self, d):
        over = self.cx.real('over%d' % self.k, 0, 1000)
        self.k += 1
        self.sleeps.append((d, over))
        self.t = self.t + d + over

    def consumer(self, i):
        self.t = self.t + self.cx.real('consumer%d' % i, 0, 1000)


@harness(labels=['same-messages-as-iteration', 'never-early', 'sleeps-exactly-the-remaining-time',
                 'no-sleep-when-late', 'no-accumulated-drift'])
def play_clock(cx, shape, meta_messages):
    import mido
    import mido.midifiles.midifiles as mf
    # (tempo from a menu and ticks_per_beat concrete here: the scheduling logic of
    #  play() does not depend on them and the seconds stay linear in the deltas)
    mid, tpb = _file(cx, mido, shape, linear=True)
    sched = []
    cum = 0.0
    for m in mid:
        cum = cum + m.time
        sched.append((m, cum))
    start = cx.real('start', -1000, 10 ** 9)
    clock = FakeTime(cx, start)
    real_time = mf.time
    mf.time = clock
    got = []
    try:
        gen = mid.play(meta_messages=meta_messages, now=clock.now)
        i = 0
        while True:
            n_sleeps = len(clock.sleeps)
            try:
                msg = next(gen)
            except StopIteration:
                break
            got.append((msg, clock.t, list(clock.sleeps[n_sleeps:])))
            clock.consumer(i)
            i += 1
    finally:
        mf.time = real_time
    want = [(m, c) for m, c in sched if meta_messages or not m.is_meta]
    cx.check(len(got) == len(want) and all(_same_but_time(a[0], m) for a, (m, _) in zip(got, want)),
             'same-messages-as-iteration')
    if len(got) != len(want):
        return
    cx.observe('yield_times', [t for _, t, _ in got])
    prev_late = None
    prev_c = None
    prev_sched = None
    for i, ((msg, t, sleeps), (m, c)) in enumerate(zip(got, want)):
        late = t - (start + c)
        cx.check(late >= 0, 'never-early')
        prev_late = late
    # sleeps: every recorded sleep is exactly (scheduled - elapsed) and positive
    # (checked on the whole run: each sleep belongs to one scheduled message)
    cx.check(cx.And(*[d > 0 for d, _ in clock.sleeps]), 'no-sleep-when-late')
    # replay the schedule over ALL messages (also the skipped meta ones)
    t = start
    si = 0
    gi = 0
    ok_exact = True
    drift = True
    for (m, c) in sched:
        remaining = c - (t - start)
        visible = meta_messages or not m.is_meta
        if decide_pos(cx, remaining):
            if si >= len(clock.sleeps):
                ok_exact = False
                break
            d, over = clock.sleeps[si]
            si += 1
            ok_exact = cx.And(ok_exact, cx.close(d, remaining, scale=_mag(cx, t)))
            t = t + d + over
            late = over
        else:
            late = t - start - c
        if visible:
            drift = cx.And(drift, cx.close(got[gi][1] - (start + c), late, scale=_mag(cx, got[gi][1])))
            t = got[gi][1] + cx.real('consumer%d' % gi, 0, 1000)
            gi += 1
    cx.check(ok_exact and si == len(clock.sleeps), 'sleeps-exactly-the-remaining-time')
    cx.check(drift, 'no-accumulated-drift')


def _mag(cx, x):
    """Magnitude of a clock value: widens the float tolerance of the concrete cross-check only."""
    return 0.0 if cx.symbolic else abs(float(x)) + 1.0


def decide_pos(cx, x):
    from .common import decide
    return decide(cx, x > 0)


@harness(labels=['second2tick(tick2second(t))==t', 'tick2second-exact-value'])
def units_inverse(cx):
    import mido
    t = cx.int('t', 0, 2 ** 31 - 1)
    tpb = cx.int('tpb', 1, 32767)
    tempo = cx.int('tempo', 1, TEMPO_MAX)
    s = mido.tick2second(t, tpb, tempo)
    cx.observe('seconds', s)
    if cx.symbolic:
        import z3
        from pysym import reals
        want = reals.SymReal(reals.to_expr(t) * reals.to_expr(tempo) / (z3.RealVal(1000000) * reals.to_expr(tpb)))
    else:
        want = t * tempo / (1000000.0 * tpb)
    cx.check(cx.close(s, want, 4), 'tick2second-exact-value')
    back = mido.second2tick(s, tpb, tempo)
    cx.check(cx.eq(back, t), 'second2tick(tick2second(t))==t')


BOUNDS = {
    'quick': 'exact-real model: every merged shape of <=4 events over {note_on, set_tempo, text, end_of_track} in 1 track and '
             'selected 2-track shapes, ticks_per_beat in 1..32767, tempos in 0..2^24-1, deltas in 0..2^28 all symbolic: yielded '
             'messages, cumulative time == exact tempo-map integral, length, copies; standard-rounding model (each float op '
             'x(1+d), |d|<=2^-53) for shapes of <=2 deltas; type 2 refusal for 0, 1, 2 and 3 tracks; in-place edits (delta, tempo value, replacement by index, ticks_per_beat) after length/iteration were already read once, 7 shapes; play() on a symbolic clock (start, oversleep and '
             'consumer delay symbolic reals; deltas symbolic, tempo from a 3-value menu, ticks_per_beat 96) for shapes of <=3 events; tick2second/second2tick inverse for t<2^31 in both models',
    'thorough': 'play() shapes of 4 events (the rounding model stays at <=2 deltas: with three z3 answers unknown on some shapes)',
}
OUTSIDE = 'bit-exact IEEE-754 double arithmetic (both solvers time out on it: DESIGN 1); float constants are idealised to ' \
          'rationals with denominator <= 10^12 (1e-6 = 10^-6); overflow to inf, subnormals; more than 4 events'
ASSUMPTIONS = [
    'exact-real model of float arithmetic; standard (1+delta) rounding model where stated',
    'reference tempo-map integral computed from the source tracks (absolute ticks, order (tick, track, index)), independent of merge_tracks',
    'clock double: sleep(d) advances the clock by d plus an arbitrary non-negative oversleep; no time passes inside play() otherwise',
]


def _shapes(n):
    import itertools
    out = []
    for k in range(0, n + 1):
        for p in itertools.product('nTxe', repeat=k):
            s = ''.join(p)
            if s.count('T') > 2 or s.count('x') > 1 or s.count('e') > 1:
                continue
            out.append(s)
    return out


def JOBS(tier):
    quick = tier == 'quick'
    jobs = []
    for s in _shapes(4):
        jobs.append((iter_tempo, {'shape': [s]}, {'width': 0, 'cost': 3 ** len(s)}))
    for sh in (['nT', 'n'], ['T', 'nn'], ['nTn', 'T'], ['n', 'T', 'n'], ['Tn', 'Tn'], ['', 'n'], ['ne', 'Tn'],
               ['ne', 'ne'], ['e', 'Te'], ['ne', 'e', 'n'], ['e', 'e', 'Tn'], ['een', 'T']):
        jobs.append((iter_tempo, {'shape': sh}, {'width': 0, 'cost': 100}))
    for s in _shapes(2):            # (three deltas: z3's nonlinear solver answers unknown on some shapes)
        jobs.append((iter_tempo, {'shape': [s], 'ulps': 4 * len(s) + 4},
                     {'width': 0, 'rounding': True, 'cost': 200, 'solver_timeout_ms': 120000}))
    for s in ('', 'n', 'nT'):
        jobs.append((type2, {'shape': [s, 'n']}, {'width': 0}))
    for sh in ([], [''], ['n'], ['nTn'], ['n', 'T', 'n']):      # any number of tracks, also none and one
        jobs.append((type2, {'shape': sh}, {'width': 0}))
    for sh in (['n'], ['nT'], ['Tn'], ['nTn'], ['TnT'], ['nT', 'n'], ['T', 'nn']):
        jobs.append((edited, {'shape': sh}, {'width': 0, 'cost': 200}))
    for s in _shapes(3 if quick else 4):
        for mm in (False, True):
            jobs.append((play_clock, {'shape': [s], 'meta_messages': mm}, {'width': 0, 'cost': 3 ** len(s)}))
    jobs.append((play_clock, {'shape': ['nT', 'n'], 'meta_messages': False}, {'width': 0, 'cost': 100}))
    jobs.append((units_inverse, {}, {'width': 0}))
    jobs.append((units_inverse, {}, {'width': 0, 'rounding': True}))
    return jobs
