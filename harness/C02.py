"""C02 - from_bytes accepts exactly the well-formed single-message encodings."""
from pysym.cx import harness

R33 = 2 ** 33


def well_formed(cx, bs):
    """Reference predicate from the MIDI 1.0 status table (harness/common.py
    carries the same table in executable form; here it is a formula)."""
    n = len(bs)
    if n == 0:
        return False
    s = bs[0]
    data_ok = cx.And(*[cx.And(0 <= b, b <= 127) for b in bs[1:]])

    def rng(lo, hi):
        return cx.And(lo <= s, s <= hi)
    cases = []
    if n == 3:
        cases += [rng(0x80, 0xBF), rng(0xE0, 0xEF), s == 0xF2]
    if n == 2:
        cases += [rng(0xC0, 0xDF), s == 0xF1, s == 0xF3]
    if n == 1:
        cases += [s == 0xF6, s == 0xF8, s == 0xFA, s == 0xFB, s == 0xFC, s == 0xFE, s == 0xFF]
    fixed = cx.And(cx.Or(*cases), data_ok) if cases else False
    sysex = False
    if n >= 2:
        sysex = cx.And(s == 0xF0, bs[-1] == 0xF7,
                       *[cx.And(0 <= b, b <= 127) for b in bs[1:-1]])
    return cx.Or(fixed, sysex)


def _judge(cx, bs, call, allowed):
    import mido
    wf = well_formed(cx, bs)
    msg, exc = cx.raises(call, *allowed, label='only-ValueError')
    if exc is not None:
        cx.check(cx.Not(wf), 'well-formed=>accepted')
        return
    cx.check(isinstance(msg, mido.Message), 'returns-message')
    cx.check(wf, 'accepted=>well-formed')
    out = msg.bytes()
    cx.observe('bytes', out)
    cx.check(cx.eq(list(out), list(bs)), 'bytes-reproduce-input')
    cx.check(len(msg) == len(bs), 'len')


@harness(labels=['only-ValueError', 'well-formed=>accepted', 'accepted=>well-formed',
                 'bytes-reproduce-input', 'returns-message', 'len'])
def from_bytes(cx, n, container='list'):
    import mido
    bs = [cx.int('b%d' % i, -R33, R33) for i in range(n)]
    src = bs if container == 'list' else tuple(bs)
    _judge(cx, bs, lambda: mido.Message.from_bytes(src), (ValueError,))


@harness(labels=['only-ValueError', 'well-formed=>accepted', 'accepted=>well-formed',
                 'bytes-reproduce-input'])
def from_hex(cx, n):
    """from_hex on the two-digit rendering of n arbitrary bytes 0..255 (one
    token per byte, see pysym.tokens), separators from a menu."""
    import mido
    bs = [cx.int('b%d' % i, 0, 255) for i in range(n)]
    seps = [' ', '', '\n ', '\t']
    sep = seps[cx.choice('sep', len(seps))]
    lower = cx.bool('lower')
    text = sep.join(format(b, '02x' if lower else '02X') for b in bs)
    _judge(cx, bs, lambda: mido.Message.from_hex(text), (ValueError,))


ILL = [1.0, '1', None, b'\x01', (1,), 1j, 128.5, 144.0, 241.0, 0.5, [], float('nan'),
       'clock', 'note_on', 'sysex', 'tune_request', b'\xf8', '\x90']


@harness(labels=['only-TypeError-or-ValueError'])
def from_bytes_illtyped(cx, n):
    """One item of the sequence is not an integer (menu), the others are
    arbitrary integers: only TypeError or ValueError may come out."""
    import mido
    pos = cx.choice('pos', n)
    k = cx.choice('ill', len(ILL))
    bs = [cx.int('b%d' % i, -300, 300) if i != pos else ILL[k] for i in range(n)]
    msg, exc = cx.raises(lambda: mido.Message.from_bytes(bs), ValueError, TypeError,
                         label='only-TypeError-or-ValueError')
    if exc is None:
        # weakest reading: a numerically equal non-int (144.0) may be accepted
        # only if bytes() still reproduces the input numerically
        out = msg.bytes()
        cx.check(len(out) == len(bs) and all(bool(a == b) for a, b in zip(out, bs)),
                 'only-TypeError-or-ValueError')


# one representative per byte class (data low/mid/high, each status family, every system status)
CLASS_BYTES = [0x00, 0x3C, 0x7F, 0x80, 0x9A, 0xAF, 0xB0, 0xC5, 0xD0, 0xEF, 0xF0, 0xF1, 0xF2, 0xF3, 0xF4, 0xF5, 0xF6,
               0xF7, 0xF8, 0xF9, 0xFA, 0xFC, 0xFE, 0xFF]


@harness(labels=['only-ValueError', 'well-formed=>accepted', 'accepted=>well-formed', 'bytes-reproduce-input',
                 'returns-message', 'len'])
def from_bytes_container(cx, n, container):
    """Real bytes / bytearray / memoryview-free containers need concrete items: each item is chosen by a
    certified fork from one representative per byte class."""
    import mido
    items = [CLASS_BYTES[cx.choice('c%d' % i, len(CLASS_BYTES))] for i in range(n)]
    src = {'bytes': bytes, 'bytearray': bytearray, 'list': list, 'deque': __import__('collections').deque}[container](items)
    if container == 'deque':
        # (a deque cannot be sliced: TypeError is the documented kind of answer for an unsuitable container)
        _, exc = cx.raises(lambda: mido.Message.from_bytes(src), ValueError, TypeError, label='only-ValueError')
        return
    _judge(cx, items, lambda: mido.Message.from_bytes(src), (ValueError,))


BOUNDS = {
    'quick': 'every integer sequence of length 0..4 with each item symbolic in [-2^33, 2^33] (superset of all byte '
             'strings of length 0..3, 16.8M, plus out-of-byte-range items); lengths 5..10 likewise (covers over-long '
             'fixed-length messages and sysex); list and tuple containers; from_hex over all byte values for n<=4; '
             'ill-typed items: 18-value menu (incl. message type names) at every position, n<=4; real bytes and bytearray '
             'inputs of length <=3 over one representative per byte class (24 classes)',
    'thorough': 'lengths 0..64 fully symbolic; from_hex n<=8; ill-typed n<=6',
}
OUTSIDE = 'sequences longer than the stated length; non-integer items beyond the menu; bytes objects are covered ' \
          'through tuple/list of ints 0..255 (same code path: indexing and slicing of a sequence)'
ASSUMPTIONS = [
    'well_formed() in this file is the reference for "exactly one complete message" (MIDI 1.0 status table)',
    'two-digit hex rendering/parsing is a trusted inverse pair (pysym.tokens)',
    'bool items count as integers (True == 1)',
]


def JOBS(tier):
    jobs = []
    top = 10 if tier == 'quick' else 64
    for n in range(0, top + 1):
        jobs.append((from_bytes, {'n': n}, {'cost': n}))
    for n in range(0, 5):
        jobs.append((from_bytes, {'n': n, 'container': 'tuple'}, {}))
    for n in range(0, (4 if tier == 'quick' else 8) + 1):
        jobs.append((from_hex, {'n': n}, {'cost': 3 ** n}))
    for n in range(1, (4 if tier == 'quick' else 6) + 1):
        jobs.append((from_bytes_illtyped, {'n': n}, {'cost': 4 ** n}))
    for c in ('bytes', 'bytearray', 'deque'):
        for n in range(0, (3 if tier == 'quick' else 4) + 1):
            jobs.append((from_bytes_container, {'n': n, 'container': c}, {'cost': 24 ** n // 10}))
    return jobs
