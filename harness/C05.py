"""C05 - Parsing does not depend on how the stream is chunked or consumed."""
from pysym.cx import harness

from .C04 import PARTS, REAL_CONTAINERS, class_stream
from .common import arbitrary_parser, decide

OPS = ['none', 'get_message', 'pending', 'iterate', 'len+get', 'iterate+get']


def _retrieve(cx, p, op, got):
    """One retrieval step; appends what it hands out to `got`; checks the
    pending()/get_message()/iteration contract on the way."""
    if op == 'none':
        return
    n = p.pending()
    cx.check(n == len(p.messages) and n == len(p), 'pending=len')
    if op == 'pending':
        return
    if op == 'get_message' or op == 'len+get':
        m = p.get_message()
        cx.check((m is None) == (n == 0), 'None-iff-empty')
        if m is not None:
            got.append(m)
            cx.check(p.pending() == n - 1, 'pending-counts-down')
        return
    if op == 'iterate+get':
        # a live iterator while another retrieval call takes messages too
        k = 0
        for m in p:
            got.append(m)
            k += 1
            x = p.get_message()
            if x is not None:
                got.append(x)
                k += 1
        cx.check(k == n and p.pending() == 0, 'iteration-drains-pending')
        return
    if op == 'iterate':
        k = 0
        for m in p:
            got.append(m)
            k += 1
        cx.check(k == n and p.pending() == 0, 'iteration-drains-pending')
        cx.check(p.get_message() is None, 'None-iff-empty')


def _drain(cx, p, style):
    """Everything that is left, through iteration or through get_message() until None."""
    if style == 0:
        return list(p)
    out = []
    for _ in range(64):
        m = p.get_message()
        if m is None:
            break
        out.append(m)
    return out


def _same_messages(cx, a, b):
    return len(a) == len(b) and cx.And(*[cx.eq(x.bytes(), y.bytes()) for x, y in zip(a, b)]) \
        and all(x.type == y.type for x, y in zip(a, b))


@harness(labels=['same-as-whole', 'pending=len', 'None-iff-empty', 'iteration-drains-pending',
                 'pending-counts-down', 'fifo'])
def chunked(cx, N, with_ops, part=None, styles=3):
    """Bounded direct: N arbitrary bytes, every way of cutting them into
    feed()/feed_byte() calls (symbolic cut mask), a retrieval op from the menu
    between chunks; compared with parse_all of the whole stream."""
    import mido
    bs = [cx.int('b%d' % i, 0, 255) for i in range(N)]
    if part is not None:
        cx.assume(cx.And(part[0] <= bs[0], bs[0] <= part[1]))
    whole = mido.parse_all(list(bs))
    p = mido.Parser()
    got = []
    chunk = []
    if with_ops and cx.bool('poll_empty_first'):
        cx.check(p.get_message() is None and p.pending() == 0, 'None-iff-empty')    # polling before anything arrived
    for i in range(N):
        chunk.append(bs[i])
        last = (i == N - 1)
        if last or cx.bool('cut%d' % i):
            how = cx.choice('how%d' % i, styles) if len(chunk) > 1 or styles > 1 else 0
            if styles == 2 and how == 1:
                how = 2
            if how == 0:
                p.feed(list(chunk))
            elif how == 1:
                p.feed(tuple(chunk))
            else:
                for b in chunk:
                    p.feed_byte(b)
            chunk = []
            if with_ops and not last:
                _retrieve(cx, p, OPS[cx.choice('op%d' % i, len(OPS))], got)
    rest = _drain(cx, p, cx.choice('drain', 2) if with_ops else 0)
    cx.check(p.pending() == 0 and p.get_message() is None, 'None-iff-empty')
    got += rest
    cx.observe('got', [m.bytes() for m in got])
    cx.check(_same_messages(cx, got, whole), 'same-as-whole')
    cx.check(True, 'fifo')


def _state_eq(cx, p1, p2):
    t1, t2 = p1._tok, p2._tok
    c = [cx.eq(t1._status, t2._status), _same_messages(cx, list(p1.messages), list(p2.messages)),
         len(t1._messages) == 0, len(t2._messages) == 0]
    if not decide(cx, t1._status == 0):
        c.append(cx.eq(list(t1._bytes), list(t2._bytes)))
        c.append(t1._len == t2._len)
    return cx.And(*c)


@harness(labels=['feed_one=feed_byte', 'feed_two=feed_one_twice', 'feed(empty)-is-noop'])
def feed_lemmas(cx, k, active):
    """Inductive lemmas from ANY parser state: feeding is a monoid action, so
    every chunking of a stream gives the same final state and queue."""
    import mido
    b1 = cx.int('b1', 0, 255)
    b2 = cx.int('b2', 0, 255)
    pa, _ = arbitrary_parser(cx, mido, k, active, queued=1)
    pb, _ = arbitrary_parser(cx, mido, k, active, queued=1)
    pa.feed([b1])
    pb.feed_byte(b1)
    cx.check(_state_eq(cx, pa, pb), 'feed_one=feed_byte')
    pc, _ = arbitrary_parser(cx, mido, k, active, queued=1)
    pc.feed([b1, b2])
    pa.feed([b2])
    cx.observe('queue', [m.bytes() for m in pa.messages])
    cx.check(_state_eq(cx, pa, pc), 'feed_two=feed_one_twice')
    pd, _ = arbitrary_parser(cx, mido, k, active, queued=1)
    pe, _ = arbitrary_parser(cx, mido, k, active, queued=1)
    pd.feed([])
    pd.feed(b'')
    cx.check(_state_eq(cx, pd, pe), 'feed(empty)-is-noop')


@harness(labels=['retrieval-commutes-with-feed', 'fifo', 'pending=len', 'None-iff-empty',
                 'iteration-drains-pending', 'pending-counts-down'])
def retrieval_lemmas(cx, k, active, j):
    """From ANY parser state with j queued messages: `op; feed(y)` and
    `feed(y); op` hand out, in total, the same messages in the same (FIFO)
    order; pending/get_message/iteration obey their contract."""
    import mido
    y = cx.int('y', 0, 255)
    op = OPS[1 + cx.choice('op', len(OPS) - 1)]
    p1, _ = arbitrary_parser(cx, mido, k, active, queued=j)
    p2, _ = arbitrary_parser(cx, mido, k, active, queued=j)
    queued = list(p2.messages)
    g1, g2 = [], []
    style = cx.choice('drain', 2)
    _retrieve(cx, p1, op, g1)
    p1.feed([y])
    g1 += _drain(cx, p1, style)
    p2.feed([y])
    new = list(p2.messages)[j:]
    _retrieve(cx, p2, op, g2)
    g2 += _drain(cx, p2, style)
    cx.observe('got', [m.bytes() for m in g1])
    cx.check(_same_messages(cx, g1, g2), 'retrieval-commutes-with-feed')
    # FIFO: what comes out is the old queue, then the new messages
    cx.check(len(g2) == j + len(new) and all(a is b for a, b in zip(g2, queued + new)), 'fifo')


@harness(labels=['queue-same-as-whole', 'poll-None-iff-empty'])
def parser_queue(cx, N):
    """backends._parser_queue.ParserQueue, single-threaded: put_bytes in any
    chunking, poll/iterpoll in between."""
    import mido
    from mido.backends._parser_queue import ParserQueue
    bs = [cx.int('b%d' % i, 0, 255) for i in range(N)]
    whole = mido.parse_all(list(bs))
    q = ParserQueue()
    got = []
    chunk = []
    for i in range(N):
        chunk.append(bs[i])
        last = (i == N - 1)
        if last or cx.bool('cut%d' % i):
            q.put_bytes(list(chunk))
            chunk = []
            if not last:
                op = cx.choice('op%d' % i, 3)
                if op == 1:
                    m = q.poll()
                    if m is not None:
                        got.append(m)
                elif op == 2:
                    got += list(q.iterpoll())
                    cx.check(q.poll() is None, 'poll-None-iff-empty')
    got += list(q.iterpoll())
    cx.check(q.poll() is None, 'poll-None-iff-empty')
    cx.observe('got', [m.bytes() for m in got])
    cx.check(_same_messages(cx, got, whole), 'queue-same-as-whole')


@harness(labels=['real-container-chunks-same-as-whole'])
def real_chunks(cx, N, container):
    """Real bytes / bytearray / memoryview / tuple / generator chunks: an opening fragment (possibly leaving a
    sysex or a message in progress) in one call, then N byte-class representatives cut at a symbolic position
    into two more calls; compared with the whole stream fed as one list."""
    import mido
    pre, items = class_stream(cx, N)
    whole = mido.parse_all(list(pre + items))
    mk = REAL_CONTAINERS[container]
    cut = cx.choice('cut', N + 1)
    p = mido.Parser()
    got, exc = cx.raises(lambda: (p.feed(mk(pre)), p.feed(mk(items[:cut])), p.feed(mk(items[cut:])), list(p))[3],
                         label='real-container-chunks-same-as-whole')
    if exc is None:
        cx.check(len(got) == len(whole) and all(a == b for a, b in zip(got, whole)),
                 'real-container-chunks-same-as-whole')


BOUNDS = {
    'quick': 'bounded direct: all byte strings of length <=2 x all chunkings x feed(list)/feed_byte x 6 retrieval ops '
             'between chunks, and length 3 x all 4 chunkings through feed(list) (no ops); inductive lemmas from every '
             'tokenizer state satisfying the invariant (buffer <=4, idle stale <=2) with 1 queued message: '
             'feed([b]) = feed_byte(b), feed([b1,b2]) = feed([b1]);feed([b2]), feed(empty) no-op; retrieval ops commute '
             'with feeding and are FIFO for queues of 0..3 messages; ParserQueue for N<=2; real bytes/bytearray/memoryview/'
             'tuple/generator chunks: 4 opening fragments x 21 byte-class representatives^2 x every cut',
    'thorough': 'bounded direct length 2 with list/tuple/feed_byte styles, length 3 with two styles; ParserQueue N<=3; lemma buffer <=8',
}
OUTSIDE = 'concurrent use (C10); streams longer than the direct bound rely on the inductive lemmas, which read the ' \
          'tokenizer internals (renamed => INCONCLUSIVE)'
ASSUMPTIONS = ['tokenizer representation invariant as in C04', 'messages compared by type and bytes()']


def JOBS(tier):
    jobs = []
    jobs.append((chunked, {'N': 1, 'with_ops': True}, {}))
    for part in PARTS:
        jobs.append((chunked, {'N': 2, 'with_ops': True, 'part': part, 'styles': 2 if tier == 'quick' else 3},
                     {'cost': 1000}))
        jobs.append((chunked, {'N': 3, 'with_ops': False, 'part': part, 'styles': 1 if tier == 'quick' else 2},
                     {'cost': 5000}))
    kmax = 4 if tier == 'quick' else 8
    for k in range(1, kmax + 1):
        jobs.append((feed_lemmas, {'k': k, 'active': True}, {'cost': 50}))
    for k in range(0, 3):
        jobs.append((feed_lemmas, {'k': k, 'active': False}, {'cost': 50}))
    for j in range(0, 4):
        for k, active in ((1, True), (2, True), (3, True), (0, False), (1, False)):
            jobs.append((retrieval_lemmas, {'k': k, 'active': active, 'j': j}, {'cost': 20}))
    for n in range(0, (2 if tier == 'quick' else 3) + 1):
        jobs.append((parser_queue, {'N': n}, {'cost': 10 ** n}))
    for c in REAL_CONTAINERS:
        for n in range(0, (2 if tier == 'quick' else 3) + 1):
            jobs.append((real_chunks, {'N': n, 'container': c}, {'cost': 21 ** n}))
    return jobs
