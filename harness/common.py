"""Reference data written from the MIDI 1.0 specification and mido's
documentation (docs/message_types.rst, docs/meta_message_types.rst) -
deliberately NOT read from mido.messages.specs, so that a wrong table entry in
the code is a disagreement the solver can find."""

# type -> (status byte, total length or None for sysex, value attributes in wire order)
MSG = {
    'note_off': (0x80, 3, ('channel', 'note', 'velocity')),
    'note_on': (0x90, 3, ('channel', 'note', 'velocity')),
    'polytouch': (0xA0, 3, ('channel', 'note', 'value')),
    'control_change': (0xB0, 3, ('channel', 'control', 'value')),
    'program_change': (0xC0, 2, ('channel', 'program')),
    'aftertouch': (0xD0, 2, ('channel', 'value')),
    'pitchwheel': (0xE0, 3, ('channel', 'pitch')),
    'sysex': (0xF0, None, ('data',)),
    'quarter_frame': (0xF1, 2, ('frame_type', 'frame_value')),
    'songpos': (0xF2, 3, ('pos',)),
    'song_select': (0xF3, 2, ('song',)),
    'tune_request': (0xF6, 1, ()),
    'clock': (0xF8, 1, ()),
    'start': (0xFA, 1, ()),
    'continue': (0xFB, 1, ()),
    'stop': (0xFC, 1, ()),
    'active_sensing': (0xFE, 1, ()),
    'reset': (0xFF, 1, ()),
}
NONSYSEX = [t for t in MSG if t != 'sysex']
CHANNEL_TYPES = [t for t in MSG if MSG[t][0] < 0xF0]
REALTIME = ['clock', 'start', 'continue', 'stop', 'active_sensing', 'reset']
REALTIME_STATUS = [0xF8, 0xFA, 0xFB, 0xFC, 0xFE, 0xFF]
UNDEFINED_STATUS = [0xF4, 0xF5, 0xF9, 0xFD]

RANGE = {
    'channel': (0, 15), 'note': (0, 127), 'velocity': (0, 127), 'value': (0, 127),
    'control': (0, 127), 'program': (0, 127), 'pitch': (-8192, 8191),
    'frame_type': (0, 7), 'frame_value': (0, 15), 'pos': (0, 16383), 'song': (0, 127),
}
DEFAULTS = {
    'channel': 0, 'note': 0, 'velocity': 64, 'value': 0, 'control': 0, 'program': 0,
    'pitch': 0, 'frame_type': 0, 'frame_value': 0, 'pos': 0, 'song': 0,
}

WIDE = 2 ** 40


def status_length(status):
    """Total message length for a status byte per the MIDI 1.0 table; None for
    sysex (F0); 0 for anything that cannot start a message."""
    if status < 0x80 or status > 0xFF:
        return 0
    if status < 0xC0:
        return 3
    if status < 0xE0:
        return 2
    if status < 0xF0:
        return 3
    return {0xF0: None, 0xF1: 2, 0xF2: 3, 0xF3: 2, 0xF6: 1, 0xF8: 1, 0xFA: 1, 0xFB: 1,
            0xFC: 1, 0xFE: 1, 0xFF: 1}.get(status, 0)


def type_of_status(status):
    for t, (st, ln, attrs) in MSG.items():
        if st < 0xF0:
            if st <= status <= st + 15:
                return t
        elif st == status:
            return t
    return None


def in_range(cx, name, v):
    lo, hi = RANGE[name]
    return cx.And(lo <= v, v <= hi)


def expected_data_bytes(cx, type_, vals):
    """Wire data bytes as arithmetic constraints (no shifts/ors): returns a
    function that, given the actual data bytes, yields the layout formula."""
    def layout(d):
        if type_ == 'pitchwheel':
            return cx.eq(d[0] + 128 * d[1] - 8192, vals['pitch'])
        if type_ == 'songpos':
            return cx.eq(d[0] + 128 * d[1], vals['pos'])
        if type_ == 'quarter_frame':
            return cx.eq(d[0], 16 * vals['frame_type'] + vals['frame_value'])
        names = [a for a in MSG[type_][2] if a != 'channel']
        return cx.And(*[cx.eq(d[i], vals[a]) for i, a in enumerate(names)])
    return layout


def decide(cx, cond):
    """Truth of cond on this path: by validity when the path decides it,
    otherwise by a certified fork."""
    if isinstance(cond, bool):
        return cond
    if cx.valid(cond):
        return True
    if cx.valid(cx.Not(cond)):
        return False
    return bool(cond)


def is_subsequence(cx, needle, hay):
    """Greedy in-order matching (complete for subsequence existence once every
    equality it looks at is decided on the path)."""
    j = 0
    for x in needle:
        while True:
            if j >= len(hay):
                return False
            y = hay[j]
            j += 1
            if x is y or decide(cx, x == y):
                break
    return True


def is_rt_status(cx, b):
    """b is one of the six defined real-time status bytes (decided per path)."""
    return decide(cx, cx.Or(b == 0xF8, b == 0xFA, b == 0xFB, b == 0xFC, b == 0xFE, b == 0xFF))


def wellformed_bytes(cx, bs):
    """Formula: the list of byte values is exactly one well-formed MIDI message."""
    from .C02 import well_formed
    return well_formed(cx, list(bs))


INF = float('inf')


def ref_len(cx, s):
    """Spec length for a status byte that opens a multi-byte message (forks)."""
    if s < 0xC0:
        return 3
    if s < 0xE0:
        return 2
    if s < 0xF0:
        return 3
    if s == 0xF0:
        return INF
    if s == 0xF1:
        return 2
    if s == 0xF2:
        return 3
    return 2       # F3


def arbitrary_parser(cx, mido, k, active, queued=0, tag=''):
    """A real Parser put DIRECTLY into an arbitrary state satisfying the
    tokenizer's representation invariant (see C04._inv): active with buffer
    [status, d1..d(k-1)] or idle with k stale bytes; `queued` opaque messages
    already pending.  Calling it twice with the same tag yields two parsers in
    the same symbolic state."""
    from pysym.core import Unmodelled
    p = mido.Parser()
    tok = getattr(p, '_tok', None)
    if tok is None or not all(hasattr(tok, a) for a in ('_status', '_bytes', '_messages')):
        raise Unmodelled('tokenizer internals (_tok._status/_bytes/_messages) not found')
    if active:
        s = cx.int(tag + 'status', 0x80, 0xF3)
        cx.assume(cx.Or(s <= 0xEF, s >= 0xF0))
        L = ref_len(cx, s)
        if not (k < L):
            cx.assume(False)
        pre = [s] + [cx.int('%sd%d' % (tag, i), 0, 127) for i in range(k - 1)]
        tok._status = s
        tok._bytes = pre
        tok._len = L
    else:
        pre = [cx.int('%sstale%d' % (tag, i), 0, 255) for i in range(k)]
        tok._status = 0
        tok._bytes = pre
        tok._len = [1, 2, 3, INF][cx.choice(tag + 'stale_len', 4)]
    for i in range(queued):
        p.messages.append(mido.Message('note_on', note=cx.int('%sq%d' % (tag, i), 0, 127)))
    return p, list(pre)


def parser_state(p):
    """Observable + internal state of a parser as plain comparable data."""
    tok = p._tok
    st = tok._status
    return {'status': st, 'buffer': list(tok._bytes) if not (isinstance(st, int) and st == 0) else None,
            'queue': [m.bytes() for m in p.messages]}
