"""C16 - A MidiFile always reflects its current contents."""
from pysym.cx import harness

from . import smf

D20 = 300         # two VLQ size classes; the magnitudes are the business of C07/C13
OBS = ['iterate', 'length', 'merged_track', 'save', 'play']
EDITS = ['bad-save-then-repair', 'tracks.append', 'tracks.insert', 'del tracks[i]', 'tracks[i]=', 'tracks=', 'add_track', 'add_track(name)',
         'track.append', 'track.insert', 'track.pop', 'track[i]=', 'msg.time=', 'msg.attr=', 'tempo=',
         'ticks_per_beat=', 'type=', 'track.name=', 'track[*]=copy', 'track.name=2']


def _mk_track(cx, mido, tag, n, with_tempo=False):
    tr = mido.MidiTrack()
    eot_inside = n < 0
    n = abs(n)
    for i in range(n):
        d = cx.int('%sdt%d' % (tag, i), 0, D20)
        if eot_inside and i == n - 2:
            tr.append(mido.MetaMessage('end_of_track', time=d))       # an end_of_track that is not the last message
        elif with_tempo and i == 0:
            tr.append(mido.MetaMessage('set_tempo', tempo=[250000, 1000000][cx.choice(tag + 'tempo', 2)], time=d))
        else:
            tr.append(mido.Message('note_on', note=cx.int('%snote%d' % (tag, i), 0, 127), time=d))
    return tr


class _Clock:
    def __init__(self):
        self.t = 0.0
        self.slept = []

    def now(self):
        return self.t

    time = monotonic = perf_counter = now

    def __getattr__(self, name):
        from pysym.core import Unmodelled
        raise Unmodelled('%s.%s is not modelled by the harness double' % (type(self).__name__, name))

    def sleep(self, d):
        self.slept.append(d)
        self.t = self.t + d


def observe(cx, mido, mid, what):
    """An observation as a flat list of atoms (ints, reals, strings)."""
    import mido.midifiles.midifiles as mf
    def flat(msgs):
        out = []
        for m in msgs:
            out.append(type(m).__name__)
            for k, v in sorted(vars(m).items()):
                out.append(k)
                out.extend(list(v) if isinstance(v, (tuple, list)) else [v])
        return out
    if what == 'iterate':
        return flat(list(mid))
    if what == 'length':
        return [mid.length]
    if what == 'merged_track':
        return flat(list(mid.merged_track))
    if what == 'save':
        f = smf.out_file(cx)
        mid.save(file=f)
        return list(smf.file_bytes(cx, f))
    if what == 'play':
        clock = _Clock()
        real = mf.time
        mf.time = clock
        try:
            msgs = list(mid.play(meta_messages=True, now=clock.now))
        finally:
            mf.time = real
        return flat(msgs) + ['slept'] + list(clock.slept)
    raise AssertionError(what)


def same_obs(cx, a, b):
    if len(a) != len(b):
        return False
    c = []
    for x, y in zip(a, b):
        if type(x).__name__ == 'SymReal' or type(y).__name__ == 'SymReal' or isinstance(x, float) or isinstance(y, float):
            c.append(cx.close(x, y))
        else:
            c.append(cx.eq(x, y))
    return cx.And(*c)


def _name_took_effect(cx, tr, name):
    """Documented meaning of assigning track.name, read off the CONTENTS of the track (the mirrored twin would
    repeat a mistake): the first track_name message the track holds now carries the name."""
    names = [m.name for m in list(tr) if getattr(m, 'type', None) == 'track_name']
    cx.check(bool(names) and names[0] == name and tr.name == name, 'edit-took-effect')


def apply_edit(cx, mido, mid, edit, k, handles=None):
    """One documented edit; returns False when the edit does not apply.  `handles`: the track objects the
    caller put into the file (edits go through them, as a user holding on to his lists would do)."""
    new_track = _mk_track(cx, mido, 'e%d_' % k, 1)
    new_msg = mido.Message('note_on', note=cx.int('e%d_n' % k, 0, 127), time=cx.int('e%d_t' % k, 0, D20))
    nt = len(mid.tracks)
    ti = cx.choice('e%d_ti' % k, nt) if nt else 0
    tr = mid.tracks[ti] if nt else None
    if handles is not None and nt and ti < len(handles):
        tr = handles[ti]
    if edit == 'bad-save-then-repair':
        # a save that fails half-way (a message time that cannot be stored), then the time is put right
        if tr is None or not len(tr):
            return False
        m = tr[-1]
        good = m.time
        vars(m)['time'] = 1.5
        try:
            mid.save(file=smf.out_file(cx))
        except ValueError:
            pass
        vars(m)['time'] = good
    elif edit == 'tracks.append':
        mid.tracks.append(new_track)
    elif edit == 'tracks.insert':
        mid.tracks.insert(0, new_track)
    elif edit == 'del tracks[i]':
        if not nt:
            return False
        del mid.tracks[ti]
    elif edit == 'tracks[i]=':
        if not nt:
            return False
        mid.tracks[ti] = new_track
    elif edit == 'tracks=':
        mid.tracks = [new_track] + list(mid.tracks[1:])
    elif edit == 'add_track':
        t = mid.add_track()
        t.append(new_msg)
    elif edit == 'add_track(name)':
        mid.add_track('lead')
    elif edit == 'track.append':
        if tr is None:
            return False
        tr.append(new_msg)
    elif edit == 'track.insert':
        if tr is None:
            return False
        tr.insert(0, new_msg)
    elif edit == 'track.pop':
        if tr is None or not len(tr):
            return False
        tr.pop()
    elif edit == 'track[i]=':
        if tr is None or not len(tr):
            return False
        tr[cx.choice('e%d_mi' % k, len(tr))] = new_msg
    elif edit in ('msg.time=', 'msg.attr=', 'tempo='):
        if tr is None or not len(tr):
            return False
        m = tr[cx.choice('e%d_mi' % k, len(tr))]
        if edit == 'msg.time=':
            m.time = cx.int('e%d_v' % k, 0, D20)
        elif edit == 'msg.attr=':
            if m.type != 'note_on':
                return False
            m.note = cx.int('e%d_v' % k, 0, 127)
        else:
            if m.type != 'set_tempo':
                return False
            m.tempo = [125000, 2000000][cx.choice('e%d_tempo' % k, 2)]
    elif edit == 'ticks_per_beat=':
        mid.ticks_per_beat = [24, 960][cx.choice('e%d_tpb' % k, 2)]
    elif edit == 'type=':
        mid.type = 0 if mid.type == 1 else 1
    elif edit == 'track.name=':
        if tr is None:
            return False
        tr.name = 'renamed'
        _name_took_effect(cx, tr, 'renamed')
    elif edit == 'track.name=2':
        if tr is None:
            return False
        tr.name = 'again'
        _name_took_effect(cx, tr, 'again')
    elif edit == 'track[*]=copy':
        # the usual rewriting loop: every message replaced by an (equal) copy of itself
        if tr is None:
            return False
        for i in range(len(tr)):
            tr[i] = tr[i].copy(time=tr[i].time)
    else:
        raise AssertionError(edit)
    return True


@harness(labels=['same-as-fresh-file', 'independent-of-earlier-observations', 'no-hidden-state-beyond-the-merge-cache',
                 'applied', 'edit-took-effect'])
def cache_step(cx, shape, pre, edits, post, plain=False):
    """observe (or not), edit(s), observe: must equal (a) the same observation on a freshly built MidiFile with
    the same contents and (b) the observation on a twin file that was built from the same values and edited the
    same way but never observed before."""
    import mido

    def build():
        tracks = [_mk_track(cx, mido, 't%d_' % i, n, with_tempo=(i == 0 and abs(n) > 0)) for i, n in enumerate(shape)]
        if plain:
            tracks = [list(t) for t in tracks]          # ordinary lists are accepted as tracks
        return mido.MidiFile(type=1, ticks_per_beat=96, tracks=tracks), list(tracks)
    mid, handles = build()
    twin, twin_handles = build()                     # same symbolic values, separate objects
    public = set(vars(mido.MidiFile(type=1)))
    if pre != 'none':
        _, exc = cx.raises(lambda: observe(cx, mido, mid, pre), ValueError, TypeError, label='applied')
    for k, e in enumerate(edits):
        if not apply_edit(cx, mido, mid, e, k, handles):
            return
        apply_edit(cx, mido, twin, e, k, twin_handles)
    cx.reach('applied')
    fresh = mido.MidiFile(type=mid.type, ticks_per_beat=mid.ticks_per_beat,
                          tracks=[mido.MidiTrack(m.copy() for m in tr) for tr in mid.tracks])
    a, ea = cx.raises(lambda: observe(cx, mido, mid, post), ValueError, TypeError, label='same-as-fresh-file')
    b, eb = cx.raises(lambda: observe(cx, mido, fresh, post), ValueError, TypeError, label='same-as-fresh-file')
    c, ec = cx.raises(lambda: observe(cx, mido, twin, post), ValueError, TypeError,
                      label='independent-of-earlier-observations')
    if ea is not None or eb is not None or ec is not None:
        cx.check(type(ea) is type(eb), 'same-as-fresh-file')
        cx.check(type(ea) is type(ec), 'independent-of-earlier-observations')
        return
    cx.observe('n_atoms', len(a))
    cx.check(same_obs(cx, a, b), 'same-as-fresh-file')
    cx.check(same_obs(cx, a, c), 'independent-of-earlier-observations')
    # (informational: which attributes the object carries beyond those of a new file)
    cx.reach('no-hidden-state-beyond-the-merge-cache')
    cx.observe('extra_attributes', sorted(set(vars(mid)) - public))


LOADED_EDITS = ['msg.time=', 'msg.attr=', 'track[i]=', 'track.pop', 'track.insert', 'track.name=', 'track[*]=copy']


@harness(labels=['loaded-file=built-file', 'loaded-file-after-edit=built-file-after-edit', 'applied'])
def loaded_step(cx, edit, post):
    """A file LOADED from bytes (with runs of byte-identical events: same status, data and delta) against the
    same contents BUILT message by message: equal before, and equal after the same edit on both - a loaded file
    is an ordinary file, its messages are separate objects."""
    import mido

    def build():
        def note(n, t):
            return mido.Message('note_on', note=n, velocity=64, time=t)
        tr0 = mido.MidiTrack([mido.MetaMessage('track_name', name='Lead', time=0), note(60, 10), note(60, 10),
                              note(60, 10), mido.MetaMessage('text', text='x', time=5),
                              mido.MetaMessage('text', text='x', time=5), mido.MetaMessage('end_of_track', time=0)])
        tr1 = mido.MidiTrack([note(60, 10), note(60, 10), mido.Message('control_change', control=7, value=1, time=0),
                              mido.Message('control_change', control=7, value=1, time=0),
                              mido.MetaMessage('end_of_track', time=0)])
        return mido.MidiFile(type=1, ticks_per_beat=96, tracks=[tr0, tr1])
    twin = build()
    f = smf.out_file(cx)
    build().save(file=f)
    mid = mido.MidiFile(file=smf.in_file(cx, smf.file_bytes(cx, f)))
    cx.check(same_obs(cx, observe(cx, mido, mid, 'merged_track'), observe(cx, mido, twin, 'merged_track')) and
             [len(t) for t in mid.tracks] == [len(t) for t in twin.tracks], 'loaded-file=built-file')
    if not apply_edit(cx, mido, mid, edit, 0):
        return
    apply_edit(cx, mido, twin, edit, 0)
    cx.reach('applied')
    a = observe(cx, mido, mid, post)
    b = observe(cx, mido, twin, post)
    cx.check(same_obs(cx, a, b), 'loaded-file-after-edit=built-file-after-edit')
    cx.check(all(same_obs(cx, observe(cx, mido, mid, o), observe(cx, mido, twin, o)) for o in ('merged_track',)),
             'loaded-file-after-edit=built-file-after-edit')


@harness(labels=['returned-objects-are-detached'])
def detached(cx, shape, obs):
    """What an observation hands out (messages of iteration / merged_track / play) belongs to the caller: changing
    those objects must not change the file, nor any other file."""
    import mido
    tracks = [_mk_track(cx, mido, 't%d_' % i, n, with_tempo=(i == 0 and abs(n) > 0)) for i, n in enumerate(shape)]
    mid = mido.MidiFile(type=1, ticks_per_beat=96, tracks=tracks)
    other = mido.MidiFile(type=1, ticks_per_beat=96, tracks=[_mk_track(cx, mido, 'o_', 1)])
    before = [observe(cx, mido, mid, o) for o in ('merged_track', 'length', 'save')]
    before_other = [observe(cx, mido, other, o) for o in ('merged_track', 'length')]
    if obs == 'merged_track':
        got = list(mid.merged_track)
    elif obs == 'iterate':
        got = list(mid)
    else:
        import mido.midifiles.midifiles as mf
        clock = _Clock()
        real = mf.time
        mf.time = clock
        try:
            got = list(mid.play(meta_messages=True, now=clock.now))
        finally:
            mf.time = real
    bump = cx.int('bump', 1, 300)
    for m in got:
        m.time = m.time + bump
        if m.type == 'note_on':
            m.note = (0 if cx.symbolic else 0)
    after = [observe(cx, mido, mid, o) for o in ('merged_track', 'length', 'save')]
    after_other = [observe(cx, mido, other, o) for o in ('merged_track', 'length')]
    cx.check(cx.And(*[same_obs(cx, x, y) for x, y in zip(before + before_other, after + after_other)]),
             'returned-objects-are-detached')


BOUNDS = {
    'quick': 'files of 0..2 tracks x 0..2 messages (deltas in 0..300 and notes symbolic, a set_tempo from a menu), every pre-observation in '
             '{none, iterate, length, play, save} (thorough: also merged_track); one shape has an end_of_track inside the track; x every one of 19 documented edits (incl. every message replaced by an equal copy, renaming twice) (plus a failed save followed by a repair; tracks also given as plain lists and edited through the reference the caller kept) (track index, message index '
             'and new values symbolic) x every post-observation, compared with a freshly built file and with a never-observed twin; objects returned by observations are mutated by the caller; selected two- and three-edit histories; a file LOADED from bytes holding runs of byte-identical events against the same contents built message by message, 7 edits x 3 observations',
    'thorough': 'all ordered pairs of edits between observations',
}
OUTSIDE = 'edits through vars(); files with more than 2 tracks x 2 messages; three or more edits in a row (covered by induction ' \
          'only if the hidden state is the merge cache alone, which the harness checks)'
ASSUMPTIONS = ['exact-real model for the seconds in iterate/length/play', 'play() runs on a clock double without real sleeping']


def JOBS(tier):
    jobs = []
    # (a negative count = that many messages with an end_of_track before the last one)
    shapes = [[], [1], [2, 1], [-3]] if tier == 'quick' else [[], [0], [1], [2], [2, 1], [1, 2], [-3], [-2, 1]]
    for sh in shapes:
        for e in EDITS:
            for pre in (['none', 'iterate', 'length', 'play', 'save'] if tier == 'quick' else ['none'] + OBS):
                for post in OBS:
                    if tier == 'quick' and sh == [] and pre not in ('none', 'iterate'):
                        continue
                    if tier == 'quick' and sh == [-3] and pre not in ('none', 'iterate', 'save'):
                        continue
                    jobs.append((cache_step, {'shape': sh, 'pre': pre, 'edits': [e], 'post': post},
                                 {'width': 0, 'cost': 1 + sum(abs(x) for x in sh)}))
    pairs = [('track.append', 'msg.time='), ('tracks.append', 'track.append'), ('add_track', 'track.append'),
             ('msg.time=', 'ticks_per_beat='), ('del tracks[i]', 'tracks.append'), ('tempo=', 'track.insert')]
    if tier != 'quick':
        base = [e for e in EDITS if e not in ('track[*]=copy', 'track.name=2')]     # (these two appear in the histories below)
        pairs = [(a, b) for a in base for b in base]
    for e in ('track.append', 'track.insert', 'track.pop', 'msg.time=', 'track[i]='):
        for pre in ('iterate', 'length', 'save', 'merged_track'):
            for post in ('iterate', 'save'):
                jobs.append((cache_step, {'shape': [2, 1], 'pre': pre, 'edits': [e], 'post': post, 'plain': True},
                             {'width': 0, 'cost': 5}))
    for sh in ([1], [2, 1], [-3], []):
        for o in ('merged_track', 'iterate', 'play'):
            jobs.append((detached, {'shape': sh, 'obs': o}, {'width': 0, 'cost': 5}))
    for e in LOADED_EDITS:
        for post in ('iterate', 'save', 'length'):
            jobs.append((loaded_step, {'edit': e, 'post': post}, {'width': 0, 'cost': 5}))
    # a name that was set (and looked up) before the messages are replaced by equal copies, then set again
    for seq in (['track.name=', 'track[*]=copy', 'track.name=2'], ['add_track(name)', 'track[*]=copy', 'track.name=2'],
                ['track[*]=copy', 'msg.time='], ['track.name=', 'track[i]=', 'track.name=2']):
        for pre in ('none', 'iterate'):
            for post in ('iterate', 'save'):
                jobs.append((cache_step, {'shape': [2, 1], 'pre': pre, 'edits': seq, 'post': post}, {'width': 0, 'cost': 10}))
    for a, b in pairs:
        for pre in ('iterate', 'length'):
            for post in ('iterate', 'length', 'save'):
                jobs.append((cache_step, {'shape': [2, 1], 'pre': pre, 'edits': [a, b], 'post': post},
                             {'width': 0, 'cost': 10}))
    return jobs
