"""C07 - MIDI file save then load preserves every track."""
from pysym.cx import harness

from . import smf
from .common import REALTIME, decide

TPB_MAX = 32767


def _deltas(cx, n, wide, hi=smf.D28):
    """n delta times; positions in `wide` are full-range, the others 0..127."""
    return [cx.int('dt%d' % i, 0, hi if i in wide else 127) for i in range(n)]


def _build_file(cx, mido, kinds_per_track, wide, ftype, tpb=None, hi=smf.D28):
    n = sum(len(k) for k in kinds_per_track)
    dts = _deltas(cx, n, wide, hi)
    tracks = []
    i = 0
    for ti, kinds in enumerate(kinds_per_track):
        tr = mido.MidiTrack()
        for k in kinds:
            tr.append(smf.make(cx, mido, k, 'm%d_' % i, dts[i]))
            i += 1
        tracks.append(tr)
    if tpb is None:
        tpb = cx.int('tpb', 1, TPB_MAX)
    return mido.MidiFile(type=ftype, ticks_per_beat=tpb, tracks=tracks)


def _save_load(cx, mido, mid, **kw):
    f = smf.out_file(cx)
    mid.save(file=f)
    data = smf.file_bytes(cx, f)
    back = mido.MidiFile(file=smf.in_file(cx, data), **kw)
    return data, back


def _judge(cx, mido, mid, back):
    cx.check(back.type == mid.type and cx.eq(back.ticks_per_beat, mid.ticks_per_beat) and
             len(back.tracks) == len(mid.tracks), 'header')
    for a, b in zip(back.tracks, mid.tracks):
        cx.check(isinstance(a, mido.MidiTrack), 'tracks')
        cx.check(smf.tracks_match(cx, mido, list(a), list(b)), 'tracks')
        n_eot = sum(1 for m in a if m.type == 'end_of_track')
        cx.check(n_eot == 1 and a[-1].type == 'end_of_track', 'one-end_of_track')
    cx.observe('loaded', [[vars(m) for m in t] for t in back.tracks])


@harness(labels=['header', 'tracks', 'one-end_of_track'])
def file_rt(cx, kinds, wide=(0,), ftype=1, hi=smf.D28, charset=None):
    """save -> load for a file whose tracks hold messages of the given kinds
    (attributes symbolic in range, so running status is triggered and broken
    by the solver's choice of channels), delta times symbolic."""
    import mido
    mid = _build_file(cx, mido, kinds, set(wide), ftype, hi=hi)
    kw = {}
    if charset:
        mid.charset = charset
        kw['charset'] = charset
    data, back = _save_load(cx, mido, mid, **kw)
    _judge(cx, mido, mid, back)


@harness(labels=['header'])
def header_rt(cx):
    """type, ticks_per_beat symbolic; 0..2 empty tracks."""
    import mido
    ftype = cx.choice('type', 3)
    ntr = 1 if ftype == 0 else cx.choice('ntracks', 3)
    tpb = cx.int('tpb', 1, 70000)
    mid = mido.MidiFile(type=ftype, ticks_per_beat=tpb, tracks=[mido.MidiTrack() for _ in range(ntr)])
    # beyond 32767 the value does not fit the header field: save may refuse (any exception), but it must not
    # write a file that loads with a different value
    r, exc = cx.raises(lambda: _save_load(cx, mido, mid), Exception, label='header')
    if exc is not None:
        cx.check(tpb > TPB_MAX, 'header')
        return
    data, back = r
    cx.observe('header', data[:14])
    cx.check(back.type == ftype and cx.eq(back.ticks_per_beat, tpb) and len(back.tracks) == ntr and
             all(len(t) == 1 and t[0].type == 'end_of_track' and t[0].time == 0 for t in back.tracks), 'header')


LENGTHS = [0, 1, 127, 128, 129, 16383, 16384]


@harness(labels=['header', 'tracks', 'one-end_of_track'])
def payload_lengths(cx, kind):
    """sysex / text / unknown-meta payloads at the VLQ size boundaries."""
    import mido
    n = LENGTHS[cx.choice('len', len(LENGTHS))]
    dt = cx.int('dt0', 0, smf.D28)
    fill = cx.int('fill', 0, 127)
    if kind == 'sysex':
        m = mido.Message('sysex', data=[fill] * n, time=dt)
    elif kind == 'text':
        m = mido.MetaMessage('text', text='t' * n, time=dt)
    else:
        m = mido.UnknownMetaMessage(0x0A, data=[fill] * n, time=dt)
    mid = mido.MidiFile(type=1, ticks_per_beat=96, tracks=[mido.MidiTrack([m])])
    data, back = _save_load(cx, mido, mid)
    cx.check(back.type == 1 and back.ticks_per_beat == 96 and len(back.tracks) == 1, 'header')
    cx.check(smf.tracks_match(cx, mido, list(back.tracks[0]), [m]), 'tracks')
    cx.check(back.tracks[0][-1].type == 'end_of_track', 'one-end_of_track')


BAD_TIMES = [1.5, 0.0, float('inf'), None, '1', 2 + 0j]


@harness(labels=['refused-with-ValueError', 'nothing-loadable-written', 'accepted-iff-storable'])
def refusal(cx, what):
    """Contents that cannot be stored make save raise ValueError."""
    import mido
    good = mido.Message('note_on', note=cx.int('note', 0, 127), time=cx.int('dt', 0, 127))
    ftype = 1
    tracks = None
    if what == 'realtime':
        t = REALTIME[cx.choice('rt', len(REALTIME))]
        bad = mido.Message(t, time=cx.int('dt1', 0, 127))
    elif what == 'negative':
        bad = mido.Message('note_on', time=cx.int('neg', -smf.D28, -1))
    elif what == 'nonint':
        bad = mido.Message('note_on', time=0)
        vars(bad)['time'] = BAD_TIMES[cx.choice('bt', len(BAD_TIMES))]
    elif what == 'meta_negative':
        bad = mido.MetaMessage('text', text='x', time=cx.int('neg', -smf.D28, -1))
    elif what == 'type0':
        ftype = 0
        k = [0, 2, 3][cx.choice('ntr', 3)]
        tracks = [mido.MidiTrack([good.copy()]) for _ in range(k)]
        bad = None
    else:
        raise AssertionError(what)
    if tracks is None:
        pos = cx.choice('pos', 3)
        tr = [good.copy(), good.copy()]
        tr.insert(pos, bad)
        tracks = [mido.MidiTrack([good.copy()]), mido.MidiTrack(tr)] if cx.bool('second') else [mido.MidiTrack(tr)]
    mid = mido.MidiFile(type=ftype, ticks_per_beat=96, tracks=tracks)
    f = smf.out_file(cx)
    _, exc = cx.raises(lambda: mid.save(file=f), ValueError, label='refused-with-ValueError')
    cx.check(exc is not None, 'refused-with-ValueError')
    data = smf.file_bytes(cx, f)
    if data:
        _, e2 = cx.raises(lambda: mido.MidiFile(file=smf.in_file(cx, data)), Exception, label='nothing-loadable-written')
        cx.check(e2 is not None, 'nothing-loadable-written')
    else:
        cx.reach('nothing-loadable-written')
    # the complement: the storable neighbours are accepted
    ok = mido.MidiFile(type=1, ticks_per_beat=96, tracks=[mido.MidiTrack([
        good.copy(), mido.Message('tune_request', time=cx.int('dt2', 0, smf.D28))])])
    _, e3 = cx.raises(lambda: ok.save(file=smf.out_file(cx)), label='accepted-iff-storable')
    cx.check(e3 is None, 'accepted-iff-storable')


def _eventful(cx, tracks):
    """Non-end_of_track messages with their absolute ticks (per track)."""
    out = []
    for t in tracks:
        now = 0
        evs = []
        for m in t:
            now = now + m.time
            if m.type != 'end_of_track':
                evs.append((m, now))
        out.append((evs, now))
    return out


@harness(labels=['load-outcome', 'save-refuses-only-as-listed', 'second-load', 'events-preserved',
                 'normal-form-idempotent'])
def lsl(cx, N, part=None, part2=None):
    """Fixed point: track body of N arbitrary bytes inside concrete MThd/MTrk
    framing.  Whenever load succeeds and save succeeds, load(save(load(b)))
    keeps every non-end_of_track event at its absolute tick, and save(load(.))
    is idempotent on the saved form."""
    import mido
    body = [cx.int('b%d' % i, 0, 255) for i in range(N)]
    if part is not None and N:
        cx.assume(cx.And(part[0] <= body[1 if N > 1 else 0], body[1 if N > 1 else 0] <= part[1]))
    if part2 is not None and N > 2:
        cx.assume(cx.And(part2[0] <= body[2], body[2] <= part2[1]))
    data = list(b'MThd') + [0, 0, 0, 6, 0, 1, 0, 1, 0, 96] + list(b'MTrk') + [0, 0, 0, N] + body
    f1, exc = cx.raises(lambda: mido.MidiFile(file=smf.in_file(cx, data)), Exception, label='load-outcome')
    if exc is not None:
        return
    out = smf.out_file(cx)
    _, exc = cx.raises(lambda: f1.save(file=out), ValueError, label='save-refuses-only-as-listed')
    if exc is not None:
        has_rt = any(m.type in REALTIME for t in f1.tracks for m in t)
        cx.check(has_rt, 'save-refuses-only-as-listed')
        return
    b2 = smf.file_bytes(cx, out)
    f2, exc = cx.raises(lambda: mido.MidiFile(file=smf.in_file(cx, b2)), label='second-load')
    if exc is not None:
        return
    cx.observe('f2', [[vars(m) for m in t] for t in f2.tracks])
    e1, e2 = _eventful(cx, f1.tracks), _eventful(cx, f2.tracks)
    same = len(e1) == len(e2) and f1.type == f2.type and cx.eq(f1.ticks_per_beat, f2.ticks_per_beat)
    if same:
        for (ev1, end1), (ev2, end2) in zip(e1, e2):
            if len(ev1) != len(ev2):
                same = False
                break
            same = cx.And(same, cx.eq(end1, end2), *[
                cx.And(cx.eq(t1, t2), smf.same_message(cx, m1.copy(time=0), m2.copy(time=0)))
                for (m1, t1), (m2, t2) in zip(ev1, ev2)])
    cx.check(same, 'events-preserved')
    out3 = smf.out_file(cx)
    f2.save(file=out3)
    b3 = smf.file_bytes(cx, out3)
    cx.check(cx.eq(list(b3), list(b2)), 'normal-form-idempotent')


BOUNDS = {
    'quick': 'save->load of files whose single track holds every ORDERED PAIR of the 27 message kinds (7 channel types, 4 '
             'system common, sysex L=0/1/2, 11 known meta kinds, unknown meta with 0/2 data bytes), all attributes symbolic '
             'in range (running status triggered and broken by the solver), first delta in [0, 2^28), second in 0..127, '
             'ticks_per_beat in 1..32767; both deltas wide for representative pairs; 2-track and type 0/2 variants; one '
             'delta up to 2^35; header symbolic (ticks_per_beat over 1..70000); text kinds under utf-8/utf-16; payload lengths 0,1,127,128,129,16383,16384; refusal cases; fixed point '
             'for every track body of <=5 arbitrary bytes',
    'thorough': 'additionally all triples over 11 representative kinds with ALL deltas full-range, 4-message shapes, '
                'track bodies of <=6 arbitrary bytes (meta events of types 0x00..0x50 up to 5 bytes)',
}
OUTSIDE = 'more than 4 messages per track, more than 2 tracks; smpte hours >= 32 (finding recorded under C09); text beyond ' \
          'the menu; kinds sequences not listed; negative division (SMPTE) headers; fixed point for longer track bodies'
ASSUMPTIONS = [
    'struct, bytearray, ord, range are shadowed by proxies with the builtin contracts (pysym/stubs.py)',
    'reading of "fixed point": after one load->save normalisation a second pass changes nothing and no event moves',
]


def JOBS(tier):
    jobs = []
    quick = tier == 'quick'
    K = smf.ALL_KINDS
    for a in K:
        for b in K:
            jobs.append((file_rt, {'kinds': [[a, b]]}, {'cost': 5}))
    for a in smf.REP_KINDS:
        for b in smf.REP_KINDS:
            jobs.append((file_rt, {'kinds': [[a, b]], 'wide': (0, 1)}, {'cost': 20}))
    for a in smf.REP_KINDS:
        jobs.append((file_rt, {'kinds': [[a], ['note_on', a]], 'wide': (1,)}, {'cost': 10}))
        jobs.append((file_rt, {'kinds': [[a, 'end_of_track', 'note_on']], 'wide': (1,)}, {'cost': 10}))
        jobs.append((file_rt, {'kinds': [[a]], 'ftype': 0, 'wide': (0,), 'hi': 2 ** 35}, {'cost': 10}))
        jobs.append((file_rt, {'kinds': [[a], []], 'ftype': 2}, {'cost': 5}))
    from .C08 import SANDWICH
    for a in ('note_on', 'program_change', 'pitchwheel'):
        for x in SANDWICH:
            jobs.append((file_rt, {'kinds': [[a, x, a]], 'wide': (1,)}, {'cost': 30}))
    for cs in ('utf-8', 'utf-16'):
        for ks in (['text', 'note_on'], ['note_on', 'track_name', 'text']):
            jobs.append((file_rt, {'kinds': [ks], 'charset': cs}, {'cost': 10}))
    jobs.append((file_rt, {'kinds': [[]]}, {}))
    jobs.append((file_rt, {'kinds': [['end_of_track', 'end_of_track']], 'wide': (0, 1)}, {}))
    jobs.append((file_rt, {'kinds': [['note_on', 'note_on', 'note_on', 'note_on']], 'wide': (0, 3)}, {'cost': 50}))
    jobs.append((header_rt, {}, {}))
    for k in ('sysex', 'text', 'unknown'):
        jobs.append((payload_lengths, {'kind': k}, {'cost': 30}))
    for w in ('realtime', 'negative', 'nonint', 'meta_negative', 'type0'):
        jobs.append((refusal, {'what': w}, {}))
    from .C04 import PARTS
    for n in range(0, 5):
        jobs.append((lsl, {'N': n}, {'cost': 10 ** n}))
    for part in PARTS:
        jobs.append((lsl, {'N': 5, 'part': part}, {'cost': 3000}))
    if not quick:
        R = [k if k != 'unknown_meta' else 'unknown_meta0' for k in smf.REP_KINDS]
        for a in R:
            for b in R:
                for c in R:
                    jobs.append((file_rt, {'kinds': [[a, b, c]], 'wide': (0, 1, 2)}, {'cost': 100}))
        jobs.append((file_rt, {'kinds': [['note_on', 'text', 'note_on', 'note_on']], 'wide': (0, 1, 2, 3)}, {'cost': 600}))
        jobs.append((file_rt, {'kinds': [['note_on', 'sysex1', 'program_change', 'note_on']], 'wide': (0, 1, 2, 3)},
                     {'cost': 600}))
        for part in PARTS:
            if part == (255, 255):
                # meta events: split further on the meta type byte (0x59 key_signature alone enumerates 65536 payloads)
                # (meta types 0x00..0x50 - the text events - are left at N<=5: two free text bytes alone are 65536
                #  decodings each)
                for part2 in ((0x51, 0x58), (0x59, 0x59), (0x5A, 0x7E), (0x7F, 0xFF)):
                    jobs.append((lsl, {'N': 6, 'part': part, 'part2': part2}, {'cost': 90000, 'deadline_s': 3000}))
            else:
                jobs.append((lsl, {'N': 6, 'part': part}, {'cost': 30000}))
    return jobs
