"""C08 - File bytes conform to the Standard MIDI File format in both directions."""
import contextlib
import io

from pysym import stubs
from pysym.cx import harness

from . import smf
from .C07 import _build_file
from .common import decide

QUIET = {('mido.midifiles.midifiles', 'print_byte'): stubs.noop,
         ('mido.midifiles.midifiles', '_dbg'): stubs.noop}


@contextlib.contextmanager
def quiet():
    with contextlib.redirect_stdout(io.StringIO()):
        yield


@harness(labels=['conformant', 'header', 'events', 'closing-FF-2F-00'])
def write_conformance(cx, kinds, wide=(0,), ftype=1):
    """Bytes written by the real save(), decoded by the reference decoder
    (minimal VLQs, legal running status only, exact chunk lengths)."""
    import mido
    mid = _build_file(cx, mido, kinds, set(wide), ftype)
    f = smf.out_file(cx)
    mid.save(file=f)
    data = smf.file_bytes(cx, f)
    cx.observe('bytes', data)
    try:
        fmt, ntr, div, tracks, notes = smf.ref_decode(cx, data, minimal=True)
    except smf.RefError as e:
        cx.fail('conformant', detail=str(e))
        return
    cx.check(True, 'conformant')
    cx.check(cx.And(cx.eq(fmt, ftype), ntr == len(mid.tracks), cx.eq(div, mid.ticks_per_beat)), 'header')
    for evs, tr in zip(tracks, mid.tracks):
        exp, tail = smf.normalised(cx, mido, list(tr))
        want = [smf.event_of(cx, m, t) for m, t in exp] + [(tail, 'meta', 0x2F, [])]
        cx.check(len(evs) == len(want) and cx.And(*[smf.same_event(cx, a, b) for a, b in zip(evs, want)]), 'events')
        last = evs[-1] if evs else None
        cx.check(last is not None and last[1] == 'meta' and cx.eq(last[2], 0x2F) and len(last[3]) == 0 and
                 sum(1 for e in evs if e[1] == 'meta' and decide(cx, e[2] == 0x2F)) == 1, 'closing-FF-2F-00')


@harness(labels=['loads', 'header', 'events', 'debug-same', 'clip-same'], extra_stubs=QUIET)
def read_conformance(cx, kinds, wide=(0,), ftype=1, full=False):
    """Every standard-conformant encoding of an event list (running status
    wherever legal, VLQs padded with 0..2 leading 0x80, header chunk of 6..8
    bytes - all chosen symbolically) loads to exactly that event list; same
    with debug=True and with clip=True."""
    import mido
    cx.one_text = True           # text content is the subject of C09/C17: one menu entry here
    mid = _build_file(cx, mido, kinds, set(wide), ftype)
    tracks = []
    for tr in mid.tracks:
        evs = [smf.event_of(cx, m, m.time) for m in tr]
        if not evs or not (evs[-1][1] == 'meta' and decide(cx, evs[-1][2] == 0x2F)):
            evs.append((0, 'meta', 0x2F, []))
        tracks.append(evs)
    # Alternatives: `full` explores the whole cross product of legal choices;
    # otherwise one alternative at a time (each on its own) plus all at once.
    if full:
        chooser = cx.choice
    else:
        asked = []

        def probe(name, k):
            asked.append((name, k))
            return 0
        smf.ref_encode(cx, ftype, mid.ticks_per_beat, tracks, probe)     # which choices exist on this path
        singles = [(n, v) for n, k in asked for v in range(1, k)]
        alt = cx.choice('alt', len(singles) + 2)
        if alt == 0:
            chooser = lambda name, k: 0                     # noqa: E731  canonical encoding
        elif alt == len(singles) + 1:
            chooser = lambda name, k: k - 1                 # noqa: E731  every alternative at once
        else:
            one = singles[alt - 1]
            chooser = lambda name, k: one[1] if name == one[0] else 0   # noqa: E731
    data = smf.ref_encode(cx, ftype, mid.ticks_per_beat, tracks, chooser)
    cx.observe('bytes', data)
    # debug / clip variants for the canonical and the all-alternatives encodings
    mode = cx.choice('mode', 3) if (full or alt == 0 or alt == len(singles) + 1) else 0
    kw = [{}, {'debug': True}, {'clip': True}][mode]
    with quiet():
        back, exc = cx.raises(lambda: mido.MidiFile(file=smf.in_file(cx, data), **kw), label='loads')
    if exc is not None:
        return
    cx.check(back.type == ftype and cx.eq(back.ticks_per_beat, mid.ticks_per_beat) and
             len(back.tracks) == len(mid.tracks), 'header')
    ok = True
    for got, tr in zip(back.tracks, mid.tracks):
        want = list(tr)
        if not want or want[-1].type != 'end_of_track':
            want = want + [mido.MetaMessage('end_of_track', time=0)]
        if len(got) != len(want):
            ok = False
            break
        ok = cx.And(ok, *[smf.same_message(cx, a, b) for a, b in zip(got, want)])
    cx.check(ok, ['events', 'debug-same', 'clip-same'][mode])
    if mode != 0:
        cx.check(ok, 'events')


@harness(labels=['clip-loads', 'clipped=min(b,127)', 'noclip-raises-iff-above-127', 'noclip-identical'],
         extra_stubs=QUIET)
def clip(cx, status_lo, status_hi, running):
    """A channel / system-common event whose data bytes are arbitrary 0..255."""
    import mido
    st = cx.int('status', status_lo, status_hi)
    if status_lo >= 0xF0:
        n = {0xF1: 1, 0xF2: 2, 0xF3: 1}[status_lo]
        kind = 'common'
    else:
        n = 1 if 0xC0 <= status_lo <= 0xDF else 2
        kind = 'channel'
    d = [cx.int('d%d' % i, 0, 255) for i in range(n)]
    evs = [(cx.int('dt', 0, 127), kind, st, d)]
    if running and kind == 'channel':
        # (under running status the first byte must be a data byte to be a
        # running-status event at all; only the later data bytes are free)
        d2 = [cx.int('e%d' % i, 0, 127 if i == 0 else 255) for i in range(n)]
        evs.append((0, kind, st, d2))
        d = d + d2
    evs.append((0, 'meta', 0x2F, []))
    data = smf.ref_encode(cx, 1, 96, [evs], lambda name, k: (1 if name.startswith('rs') else 0))
    high = cx.Or(*[x > 127 for x in d])
    a, exc = cx.raises(lambda: mido.MidiFile(file=smf.in_file(cx, data), clip=True), label='clip-loads')
    if exc is None:
        got = [x for m in a.tracks[0] if not m.is_meta for x in m.bytes()[1:]]
        cx.observe('clipped', got)
        cx.check(len(got) == len(d) and cx.And(*[cx.eq(g, cx.ite(x > 127, 127, x)) for g, x in zip(got, d)]),
                 'clipped=min(b,127)')
    b, exc2 = cx.raises(lambda: mido.MidiFile(file=smf.in_file(cx, data), clip=False), Exception,
                        label='noclip-raises-iff-above-127')
    if exc2 is not None:
        cx.check(high, 'noclip-raises-iff-above-127')
    else:
        cx.check(cx.Not(high), 'noclip-raises-iff-above-127')
        if exc is None:
            cx.check(len(a.tracks[0]) == len(b.tracks[0]) and
                     cx.And(*[smf.same_message(cx, x, y) for x, y in zip(a.tracks[0], b.tracks[0])]),
                     'noclip-identical')


@harness(labels=['clip-loads', 'sysex-clipped', 'noclip-raises-iff-above-127'])
def clip_sysex(cx, L):
    import mido
    d = [cx.int('d%d' % i, 0, 255) for i in range(L)]
    cx.assume(cx.And(*[x != 0xF7 for x in d[-1:]]))       # F7 closes the event
    evs = [(0, 'sysex', 0xF0, d), (0, 'meta', 0x2F, [])]
    data = smf.ref_encode(cx, 1, 96, [evs], lambda name, k: 0)
    high = cx.Or(*[x > 127 for x in d])
    a, exc = cx.raises(lambda: mido.MidiFile(file=smf.in_file(cx, data), clip=True), label='clip-loads')
    if exc is None:
        got = list(a.tracks[0][0].data)
        # (a leading F0 inside the payload is stripped by the reader: outside the claim)
        if not (d and decide(cx, d[0] == 0xF0)):
            cx.check(len(got) == L and cx.And(*[cx.eq(g, cx.ite(x > 127, 127, x)) for g, x in zip(got, d)]),
                     'sysex-clipped')
    b, exc2 = cx.raises(lambda: mido.MidiFile(file=smf.in_file(cx, data), clip=False), Exception,
                        label='noclip-raises-iff-above-127')
    if exc2 is not None:
        cx.check(high, 'noclip-raises-iff-above-127')
    elif not (d and decide(cx, d[0] == 0xF0)):
        cx.check(cx.Not(high), 'noclip-raises-iff-above-127')


BOUNDS = {
    'quick': 'write direction: every ordered pair of the 27 message kinds in one track (attributes symbolic in range, first '
             'delta in [0,2^28)), 2-track/type 0/type 2 variants, sandwiches [a, x, a] of a channel message around each event class, representative pairs with both deltas wide; read direction: '
             'ordered pairs of 7 representative kinds x legal alternative encodings (running status per event, VLQ padding 1..2 on each '
             'delta and 1 on each length, header chunk length 7..8: each alternative on its own and all at once; the full '
             'cross product for single-message tracks) x {plain, debug=True, clip=True}; clip: every channel and '
             'system-common status with data bytes symbolic 0..255, with and without running status; sysex payload L<=3',
    'thorough': 'read direction over all ordered pairs of 11 representative kinds; write direction over triples of representatives',
}
OUTSIDE = 'F7 escape/continuation events; SMPTE (negative) division; sysex payloads that themselves start with F0 (the reader ' \
          'strips it); debug output text itself (stubbed in symbolic mode, real in the concrete replay)'
ASSUMPTIONS = [
    'reference SMF decoder/encoder harness/smf.py (written from the SMF 1.0 specification)',
    'event payloads are taken from msg.bytes(), whose layout is the subject of C01/C09',
]


# x in [a, x, a]: a channel message, something that must cancel running status (or not), the same channel message
SANDWICH = ['text', 'set_tempo', 'unknown_meta0', 'sequencer_specific', 'sysex0', 'sysex1', 'songpos', 'tune_request',
            'end_of_track', 'note_off']
READ_KINDS = ['note_on', 'program_change', 'sysex1', 'songpos', 'set_tempo', 'text', 'unknown_meta0']


def JOBS(tier):
    jobs = []
    quick = tier == 'quick'
    K = smf.ALL_KINDS
    R = smf.REP_KINDS
    for a in K:
        for b in K:
            jobs.append((write_conformance, {'kinds': [[a, b]]}, {'cost': 5}))
    for a in R:
        for b in R:
            jobs.append((write_conformance, {'kinds': [[a, b]], 'wide': (0, 1)}, {'cost': 20}))
        jobs.append((write_conformance, {'kinds': [[a], ['note_on', a]], 'wide': (1,)}, {'cost': 10}))
        jobs.append((write_conformance, {'kinds': [[a, 'end_of_track', 'note_on']], 'wide': (1,)}, {'cost': 10}))
        jobs.append((write_conformance, {'kinds': [[a]], 'ftype': 0}, {'cost': 5}))
        jobs.append((write_conformance, {'kinds': [[a], []], 'ftype': 2}, {'cost': 5}))
    for a in ('note_on', 'program_change', 'pitchwheel'):
        for x in SANDWICH:
            jobs.append((write_conformance, {'kinds': [[a, x, a]], 'wide': (1,)}, {'cost': 30}))
            jobs.append((read_conformance, {'kinds': [[a, x, a]], 'wide': ()}, {'cost': 100}))
    jobs.append((write_conformance, {'kinds': [[]]}, {}))
    jobs.append((write_conformance, {'kinds': [['note_on', 'note_on', 'note_on']], 'wide': (0, 2)}, {'cost': 30}))
    RK = READ_KINDS if quick else R
    for a in RK:
        for b in RK:
            jobs.append((read_conformance, {'kinds': [[a, b]]}, {'cost': 60}))
    jobs.append((read_conformance, {'kinds': [[]]}, {}))
    jobs.append((read_conformance, {'kinds': [['note_on'], ['note_on']], 'ftype': 1}, {'cost': 60}))
    jobs.append((read_conformance, {'kinds': [['note_on', 'note_on', 'note_on']]}, {'cost': 300}))
    for a in R:
        if quick and a == 'unknown_meta':
            a = 'unknown_meta0'
        jobs.append((read_conformance, {'kinds': [[a]], 'full': True}, {'cost': 300}))
    for lo, hi in [(0x80, 0x8F), (0x90, 0x9F), (0xA0, 0xAF), (0xB0, 0xBF), (0xC0, 0xCF), (0xD0, 0xDF), (0xE0, 0xEF),
                   (0xF1, 0xF1), (0xF2, 0xF2), (0xF3, 0xF3)]:
        jobs.append((clip, {'status_lo': lo, 'status_hi': hi, 'running': False}, {}))
        if lo < 0xF0:
            jobs.append((clip, {'status_lo': lo, 'status_hi': hi, 'running': True}, {}))
    for L in range(0, 4):
        jobs.append((clip_sysex, {'L': L}, {}))
    if not quick:
        for a in R:
            for b in R:
                for c in R:
                    jobs.append((write_conformance, {'kinds': [[a, b, c]], 'wide': (0, 1, 2)}, {'cost': 100}))
    return jobs
