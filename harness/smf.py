"""Shared by C07/C08/C16/C17: symbolic message 'kinds', track shapes, and an
independent reference Standard-MIDI-File codec (ref_decode / ref_encode) that
works on proxies.  Written from the SMF 1.0 specification, not from mido."""
import io

from pysym import stubs

from .C06 import sym_message
from .C09 import ASSIGNED, FRAME_RATES, INT_TYPES, KEY_NAMES, TEXT_TYPES
from .common import MSG, REALTIME, decide

D28 = 2 ** 28 - 1

# ---------------------------------------------------------------- kinds
CHANNEL_KINDS = ['note_off', 'note_on', 'polytouch', 'control_change', 'program_change', 'aftertouch',
                 'pitchwheel']
COMMON_KINDS = ['quarter_frame', 'songpos', 'song_select', 'tune_request']
SYSEX_KINDS = ['sysex0', 'sysex1', 'sysex2']
META_INT_KINDS = list(INT_TYPES)               # incl. end_of_track
META_OTHER_KINDS = ['key_signature', 'text', 'track_name', 'sequencer_specific', 'unknown_meta', 'unknown_meta0']
ALL_KINDS = CHANNEL_KINDS + COMMON_KINDS + SYSEX_KINDS + META_INT_KINDS + META_OTHER_KINDS
REP_KINDS = ['note_on', 'note_off', 'program_change', 'pitchwheel', 'sysex1', 'songpos', 'tune_request',
             'set_tempo', 'text', 'unknown_meta', 'end_of_track']
TEXT_MENU = ['', 'Piano é', 'x' * 130]       # ('Piano é' is encodable in every charset the harnesses use)


def make(cx, mido, kind, tag, delta):
    """A symbolic message of the given kind with delta time `delta`."""
    if kind in MSG:
        m = sym_message(cx, mido, kind, tag=tag)
        return m.copy(time=delta)
    if kind.startswith('sysex'):
        m = sym_message(cx, mido, 'sysex', L=int(kind[5:]), tag=tag)
        return m.copy(time=delta)
    if kind in INT_TYPES:
        vals = {}
        for a, lo, hi in INT_TYPES[kind][1]:
            if a == 'hours':
                hi = 31            # hours 32..255: recorded finding of C09, kept out here
            vals[a] = cx.int(tag + a, lo, hi)
        if kind == 'smpte_offset':
            vals['frame_rate'] = FRAME_RATES[cx.choice(tag + 'rate', 4)]
        if kind == 'time_signature':
            vals['denominator'] = [1, 4, 2 ** 255][cx.choice(tag + 'den', 3)]
        return mido.MetaMessage(kind, time=delta, **vals)
    if kind == 'key_signature':
        return mido.MetaMessage(kind, time=delta, key=[KEY_NAMES[0], 'C', KEY_NAMES[-1]][cx.choice(tag + 'key', 3)])
    if kind in TEXT_TYPES:
        text = TEXT_MENU[cx.choice(tag + 'text', len(TEXT_MENU))] if not getattr(cx, 'one_text', False) else TEXT_MENU[1]
        return mido.MetaMessage(kind, time=delta, **{TEXT_TYPES[kind][1]: text})
    if kind == 'sequencer_specific_default':
        return mido.MetaMessage('sequencer_specific', time=delta)
    if kind == 'sequencer_specific':
        return mido.MetaMessage(kind, time=delta, data=tuple(cx.int('%sd%d' % (tag, i), 0, 255) for i in range(2)))
    if kind in ('unknown_meta', 'unknown_meta0'):
        tb = cx.int(tag + 'type_byte', 0, 127)
        cx.assume_fn(lambda: cx.And(*[tb != a for a in ASSIGNED]))
        n = 2 if kind == 'unknown_meta' else 0
        return mido.UnknownMetaMessage(tb, data=[cx.int('%sd%d' % (tag, i), 0, 255) for i in range(n)], time=delta)
    raise AssertionError(kind)


def same_message(cx, a, b):
    """Formula: equal class, type, every attribute and time."""
    if type(a) is not type(b):
        return False
    va, vb = vars(a), vars(b)
    if set(va) != set(vb):
        return False
    return cx.And(*[cx.eq(_plain(va[k]), _plain(vb[k])) for k in va])


def _plain(v):
    return list(v) if isinstance(v, (tuple, list)) else v


def normalised(cx, mido, track):
    """Reference for what a saved track must load as: the non-end_of_track
    messages in order, removed end_of_track deltas folded into the following
    message, one end_of_track carrying the trailing delta."""
    out = []
    acc = 0
    for m in track:
        if m.type == 'end_of_track':
            acc = acc + m.time
        else:
            out.append((m, acc + m.time))
            acc = 0
    return out, acc


def tracks_match(cx, mido, loaded, original):
    exp, tail = normalised(cx, mido, original)
    if len(loaded) != len(exp) + 1:
        return False
    c = []
    for got, (m, t) in zip(loaded, exp):
        va, vb = dict(vars(got)), dict(vars(m))
        va.pop('time'), vb.pop('time')
        if type(got) is not type(m) or set(va) != set(vb):
            return False
        c.append(cx.And(cx.eq(got.time, t), *[cx.eq(_plain(va[k]), _plain(vb[k])) for k in va]))
    last = loaded[-1]
    c.append(cx.And(last.type == 'end_of_track', cx.eq(last.time, tail)))
    return cx.And(*c)


# ---------------------------------------------------------------- file objects
def out_file(cx):
    return stubs.SymFile() if cx.symbolic else io.BytesIO()


def file_bytes(cx, f):
    return f.getvalue() if cx.symbolic else list(f.getvalue())


def in_file(cx, items):
    return stubs.SymFile(items) if cx.symbolic else io.BytesIO(bytes(int(x) for x in items))


# ---------------------------------------------------------------- reference codec
class RefError(Exception):
    """The byte string is not a conformant SMF."""


def _u(items):
    v = 0
    for b in items:
        v = v * 256 + b
    return v


def ref_vlq(cx, bs, pos, minimal):
    """Reads a VLQ at pos; returns (value, new pos).  With minimal=True a
    padded quantity (leading 0x80) is non-conformant for a writer."""
    val = 0
    n = 0
    while True:
        if pos >= len(bs):
            raise RefError('eof in vlq')
        b = bs[pos]
        pos += 1
        n += 1
        if n > 6:
            raise RefError('vlq too long')
        if bool(b >= 128):
            if minimal and n == 1 and bool(b == 128):
                raise RefError('non-minimal vlq')
            val = val * 128 + (b - 128)
        else:
            return val * 128 + b, pos


def ref_decode(cx, bs, minimal=True):
    """-> (format, ntracks, division, [[(delta, kind, status_or_type, data)]], notes)
    kind in 'channel' | 'common' | 'sysex' | 'meta'.  Raises RefError for a
    non-conformant file.  notes: list of ('running', track, index) where the
    writer used running status."""
    bs = list(bs)
    if len(bs) < 14 or bytes(int(x) for x in bs[:4]) != b'MThd':
        raise RefError('no MThd')
    hlen = _u(bs[4:8])
    if not isinstance(hlen, int) or hlen < 6:
        raise RefError('header length')
    fmt, ntr, div = _u(bs[8:10]), _u(bs[10:12]), _u(bs[12:14])
    pos = 8 + hlen
    tracks = []
    notes = []
    for ti in range(int(ntr)):
        if bytes(int(x) for x in bs[pos:pos + 4]) != b'MTrk':
            raise RefError('no MTrk at %d' % pos)
        tlen = _u(bs[pos + 4:pos + 8])
        pos += 8
        end = pos + int(tlen)
        if end > len(bs):
            raise RefError('track length beyond the file')
        evs = []
        running = None
        while pos < end:
            delta, pos = ref_vlq(cx, bs, pos, minimal)
            if pos >= end:
                raise RefError('event missing')
            st = bs[pos]
            if bool(st < 0x80):
                if running is None:
                    raise RefError('running status without a channel status in force')
                st = running
                notes.append(('running', ti, len(evs)))
            else:
                pos += 1
            if bool(st == 0xFF):
                if pos >= end:
                    raise RefError('eof')
                mt = bs[pos]
                n, pos = ref_vlq(cx, bs, pos + 1, minimal)
                n = int(n)
                if pos + n > end:
                    raise RefError('meta beyond the chunk')
                evs.append((delta, 'meta', mt, bs[pos:pos + n]))
                pos += n
                running = None           # meta events cancel running status
            elif bool(st == 0xF0):
                n, pos = ref_vlq(cx, bs, pos, minimal)
                n = int(n)
                if pos + n > end:
                    raise RefError('sysex beyond the chunk')
                body = bs[pos:pos + n]
                pos += n
                if not body or not bool(body[-1] == 0xF7):
                    raise RefError('sysex event not closed by F7')
                evs.append((delta, 'sysex', 0xF0, body[:-1]))
                running = None           # sysex events cancel running status
            elif bool(st < 0xF0):
                n = 1 if bool(cx.And(0xC0 <= st, st <= 0xDF)) else 2
                if pos + n > end:
                    raise RefError('channel data beyond the chunk')
                evs.append((delta, 'channel', st, bs[pos:pos + n]))
                pos += n
                running = st
            else:
                n = {0xF1: 1, 0xF2: 2, 0xF3: 1, 0xF6: 0}.get(int(st))
                if n is None:
                    raise RefError('status %r not allowed in a file' % (st,))
                if pos + n > end:
                    raise RefError('data beyond the chunk')
                evs.append((delta, 'common', st, bs[pos:pos + n]))
                pos += n
                running = None
        if pos != end:
            raise RefError('event crosses the chunk end')
        tracks.append(evs)
    if pos != len(bs):
        raise RefError('trailing bytes')
    return fmt, ntr, div, tracks, notes


def event_of(cx, msg, delta):
    """In-memory message -> reference event (uses msg.bytes(), whose layout is
    settled by C01/C09; C08 is about the file framing around it)."""
    b = list(msg.bytes())
    if msg.is_meta:
        # FF type <vlq> payload : strip the length with the reference reader
        n, pos = ref_vlq(cx, b, 2, True)
        return (delta, 'meta', b[1], b[pos:])
    if msg.type == 'sysex':
        return (delta, 'sysex', 0xF0, b[1:-1])
    return (delta, 'channel' if msg.type in MSG and MSG[msg.type][0] < 0xF0 else 'common', b[0], b[1:])


def same_event(cx, a, b):
    return a[1] == b[1] and len(a[3]) == len(b[3]) and \
        cx.And(cx.eq(a[0], b[0]), cx.eq(a[2], b[2]), cx.eq(list(a[3]), list(b[3])))


def ref_vlq_encode(cx, n, pad=0):
    """Minimal VLQ of n (forks on the size class) with `pad` leading 0x80."""
    # (n >= 0; masks and shifts instead of % and //: same arithmetic, far cheaper to bit-blast)
    out = [n & 127]
    n = n >> 7
    while bool(n > 0):
        out.append(128 + (n & 127))
        n = n >> 7
    return [128] * pad + out[::-1]


def ref_encode(cx, fmt, division, tracks, choose):
    """Conformant encoding of event lists with symbolic legal alternatives:
    choose(name, n) picks among n alternatives (running status where legal,
    VLQ padding 0..2, header chunk length 6..8)."""
    extra = choose('hdr_extra', 3)
    hdr = [0, 0, 0, 6 + extra, fmt >> 8 & 255 if isinstance(fmt, int) else 0, fmt & 255,
           len(tracks) >> 8, len(tracks) & 255] + [division >> 8, division & 255] + [0x5A] * extra
    out = list(b'MThd') + hdr
    for ti, evs in enumerate(tracks):
        body = []
        running = None
        for i, (delta, kind, st, data) in enumerate(evs):
            body += ref_vlq_encode(cx, delta, choose('pad%d_%d' % (ti, i), 3))
            if kind == 'meta':
                body += [0xFF, st] + ref_vlq_encode(cx, len(data), choose('lpad%d_%d' % (ti, i), 2)) + list(data)
                running = None
            elif kind == 'sysex':
                body += [0xF0] + ref_vlq_encode(cx, len(data) + 1, choose('lpad%d_%d' % (ti, i), 2)) + list(data) + [0xF7]
                running = None
            elif kind == 'channel':
                legal = running is not None and decide(cx, running == st)
                if legal and choose('rs%d_%d' % (ti, i), 2) == 1:
                    body += list(data)
                else:
                    body += [st] + list(data)
                running = st
            else:
                body += [st] + list(data)
                running = None
        n = len(body)
        out += list(b'MTrk') + [n >> 24 & 255, n >> 16 & 255, n >> 8 & 255, n & 255] + body
    return out
