"""C19 - SYX files round-trip sysex messages."""
from pysym import stubs
from pysym.cx import harness

from .C06 import sym_message

KINDS = ['sysex0', 'sysex1', 'sysex2', 'sysex4', 'note_on', 'clock', 'songpos', 'tune_request']
GAPS = [' ', '\n', '\t', '\r\n', '  ', '', ' \n \t']


def _msg(cx, mido, kind, tag):
    if kind.startswith('sysex'):
        return sym_message(cx, mido, 'sysex', L=int(kind[5:]), tag=tag)
    return sym_message(cx, mido, kind, tag=tag)


class _fs:
    """Installs an in-memory file system as mido.syx.open (both modes)."""

    def __enter__(self):
        import mido.syx as syx
        self.syx = syx
        self.fs = stubs.FakeFS()
        self.had = 'open' in vars(syx)
        self.old = vars(syx).get('open')
        syx.open = self.fs.open
        return self.fs

    def __exit__(self, etype, e, tb):
        if self.had:
            self.syx.open = self.old
        else:
            del self.syx.open
        if etype is not None and issubclass(etype, FileNotFoundError) and getattr(e, 'filename', None) is not None:
            # the code went to the real file system (not through open() of mido.syx): outside the double
            from pysym.core import Unmodelled
            raise Unmodelled('file access that bypasses the in-memory file system double: %r' % (e,))
        return False


def _same(cx, got, want):
    return len(got) == len(want) and all(g.type == 'sysex' for g in got) and \
        cx.And(*[cx.eq(list(g.data), list(w.data)) for g, w in zip(got, want)])


@harness(labels=['exactly-the-sysex-messages', 'files-closed', 'file-content'])
def syx_rt(cx, n, plaintext):
    """write_syx_file -> read_syx_file for n messages of symbolic kinds."""
    import mido
    msgs = [_msg(cx, mido, KINDS[cx.choice('k%d' % i, len(KINDS))], 'm%d_' % i) for i in range(n)]
    want = [m for m in msgs if m.type == 'sysex']
    with _fs() as fs:
        mido.write_syx_file('x.syx', msgs, plaintext=plaintext)
        content = fs.files.get('x.syx')
        got = mido.read_syx_file('x.syx')
        cx.check(all(f.closed for f in fs.opened) and len(fs.opened) == 2, 'files-closed')
    cx.observe('got', [list(g.data) for g in got])
    cx.check(_same(cx, got, want), 'exactly-the-sysex-messages')
    if not plaintext:
        flat = [b for m in want for b in m.bytes()]
        cx.check(cx.eq(list(content), flat), 'file-content')
    else:
        cx.check(isinstance(content, str) and content.count('\n') == len(want), 'file-content')


LARGE = [127, 128, 4096]


@harness(labels=['exactly-the-sysex-messages'])
def syx_large(cx, plaintext):
    import mido
    L = LARGE[cx.choice('len', len(LARGE))]
    fill = cx.int('fill', 0, 127)
    other = cx.int('other', 0, 127)
    msgs = [mido.Message('sysex', data=[fill] * L), mido.Message('note_on', note=other),
            mido.Message('sysex', data=[other] + [fill] * 3)]
    with _fs():
        mido.write_syx_file('big.syx', msgs, plaintext=plaintext)
        got = mido.read_syx_file('big.syx')
    cx.check(_same(cx, got, [msgs[0], msgs[2]]), 'exactly-the-sysex-messages')


@harness(labels=['other-messages-dropped-on-reading'])
def binary_with_others(cx, n):
    """A binary file that starts with a sysex and holds other messages and
    stray bytes between the sysex messages."""
    import mido
    first = _msg(cx, mido, 'sysex1', 'f_')
    rest = [_msg(cx, mido, KINDS[cx.choice('k%d' % i, len(KINDS))], 'm%d_' % i) for i in range(n)]
    stray = cx.int('stray', 0, 127)
    data = list(first.bytes()) + [stray] + [b for m in rest for b in m.bytes()]
    with _fs() as fs:
        fs.files['in.syx'] = data
        got = mido.read_syx_file('in.syx')
    cx.check(_same(cx, got, [first] + [m for m in rest if m.type == 'sysex']), 'other-messages-dropped-on-reading')


@harness(labels=['any-whitespace-layout', 'empty-file'])
def text_layout(cx, L, n):
    """Plain-text files with any white space between the two-digit hex bytes."""
    import mido
    msgs = [_msg(cx, mido, 'sysex%d' % L, 'm%d_' % i) for i in range(n)]
    lower = cx.bool('lower')
    parts = []
    for m in msgs:
        for b in m.bytes():
            parts.append(format(b, '02x' if lower else '02X'))
    text = GAPS[cx.choice('lead', 4)] if cx.bool('leading') else ''
    for i, p in enumerate(parts):
        text += p
        gap = GAPS[cx.choice('g%d' % (i % 2), len(GAPS))] if i < len(parts) - 1 else \
            GAPS[cx.choice('tail', 3)]
        text += gap
    with _fs() as fs:
        fs.files['t.syx'] = text
        got, exc = cx.raises(lambda: mido.read_syx_file('t.syx'), label='any-whitespace-layout')
    if exc is None:
        cx.check(_same(cx, got, msgs), 'any-whitespace-layout')
    with _fs() as fs:
        fs.files['e.syx'] = []
        cx.check(mido.read_syx_file('e.syx') == [], 'empty-file')


@harness(labels=['many-messages-all-returned', 'large-text-file'])
def scale(cx, plaintext):
    """Concrete scale probes: more than a thousand messages; a text file larger than 64 KiB."""
    import mido
    n = [1023, 1025, 3000][cx.choice('count', 3)]
    msgs = [mido.Message('sysex', data=[i % 128, (i // 128) % 128]) for i in range(n)]
    with _fs():
        mido.write_syx_file('many.syx', msgs, plaintext=plaintext)
        got = mido.read_syx_file('many.syx')
    cx.check(len(got) == n and _same(cx, got, msgs), 'many-messages-all-returned')
    L = [21844, 21846, 30001][cx.choice('len', 3)]
    big = [mido.Message('sysex', data=[(7 * i) % 128 for i in range(L)]), mido.Message('sysex', data=[1])]
    with _fs():
        mido.write_syx_file('big.syx', big, plaintext=plaintext)
        got, exc = cx.raises(lambda: mido.read_syx_file('big.syx'), label='large-text-file')
    if exc is None:
        cx.check(_same(cx, got, big), 'large-text-file')


BAD_TEXT = ['F0 1 F7', 'F0 0G F7', 'F0 01 F', 'F 0 01 F7', 'F0 01 F7 x', 'F0,01,F7', '0xF0 0x01 0xF7', 'F0 01F 7',
            'F0 -1 F7', 'hello', 'F0 01 F7\x00', 'F0 01 F7 \xe9', 'F0 \xff 01 F7', '\xe9\xe8', 'F0 01 F7\xb7']


@harness(labels=['bad-hex-raises-ValueError'])
def text_invalid(cx):
    import mido
    t = BAD_TEXT[cx.choice('bad', len(BAD_TEXT))]
    with _fs() as fs:
        fs.files['b.syx'] = t
        _, exc = cx.raises(lambda: mido.read_syx_file('b.syx'), ValueError, label='bad-hex-raises-ValueError')
    cx.check(exc is not None, 'bad-hex-raises-ValueError')


BOUNDS = {
    'quick': 'lists of 0..3 messages, each of a symbolically chosen kind among sysex with 0/1/2/4 symbolic data bytes, note_on, '
             'clock, songpos, tune_request: binary and plain-text write -> read; payloads of 127/128/4096 symbolic-fill bytes; '
             'binary files with other messages and a stray byte between sysex messages; text files of 1-2 sysex (payload 0..2) '
             'with leading/inner/trailing white space from a 7-entry menu and upper/lower case; 15 corrupt texts (incl. non-ASCII junk); concrete scale probes (1023..3000 messages, payloads of 21844..30001 bytes in both formats)',
    'thorough': 'lists of 4 messages',
}
OUTSIDE = 'real file system semantics (open() is replaced by an in-memory double in mido.syx); text encodings other than ' \
          'latin1/ASCII; two-digit hex rendering/parsing is a trusted inverse pair (tokens)'
ASSUMPTIONS = ['in-memory file system double keeps the open()/read()/write()/close() contract for text and binary mode']


def JOBS(tier):
    jobs = []
    top = 3 if tier == 'quick' else 4
    for n in range(0, top + 1):
        for pt in (False, True):
            jobs.append((syx_rt, {'n': n, 'plaintext': pt}, {'cost': 8 ** n}))
    for pt in (False, True):
        jobs.append((syx_large, {'plaintext': pt}, {'cost': 50}))
    for n in (0, 1, 2):
        jobs.append((binary_with_others, {'n': n}, {'cost': 8 ** n}))
    for L in (0, 1, 2):
        for n in (1, 2):
            jobs.append((text_layout, {'L': L, 'n': n}, {'cost': 100}))
    jobs.append((text_invalid, {}, {}))
    for pt in (False, True):
        jobs.append((scale, {'plaintext': pt}, {'cost': 100}))
    return jobs
