"""C10 - Ports deliver each message exactly once and in order under concurrent use."""
from pysym import sched as sc
from pysym.cx import harness

from .common import RANGE


class World:
    """Installs the cooperative lock, the scheduler's sleep and the line
    tracer for one harness run (both modes)."""

    def __init__(self, cx, max_preempt, free_choices=True, trace_parser=False):
        self.cx = cx
        self.max_preempt = max_preempt
        self.free_choices = free_choices
        self.trace_parser = trace_parser

    def __enter__(self):
        import mido.backends._parser_queue as pq
        import mido.parser
        import mido.ports as ports
        import mido.tokenizer
        self.ports, self.pq = ports, pq
        self.old = (ports.threading, ports.sleep, pq.RLock)
        # yield points: every line of ports.py, _parser_queue.py and of the device double below;
        # calls into the parser/tokenizer/message code run atomically
        traced = {ports.__file__, pq.__file__, __file__}
        if self.trace_parser:
            traced |= {mido.parser.__file__, mido.tokenizer.__file__}
        self.s = sc.Sched(self.cx, traced, self.max_preempt, free_choices=self.free_choices)
        ports.threading = sc.FakeThreading
        ports.sleep = self.s.sleep
        pq.RLock = sc.CoopRLock
        return self.s

    def __exit__(self, *a):
        self.ports.threading, self.ports.sleep, self.pq.RLock = self.old
        return False


def wire_port(mido):
    """(a) a lock-protected device port that moves every message BYTE BY BYTE
    through a shared wire and a real Parser: interleaved writers or readers
    would mix bytes of different messages."""
    from collections import deque
    from mido.ports import BaseIOPort

    class WirePort(BaseIOPort):
        def _open(self, **kw):
            self.wire = deque()

        def _send(self, msg):
            for b in msg.bytes():
                self.wire.append(b)

        def _receive(self, block=True):
            while len(self.wire):
                b = self.wire.popleft()
                self._parser.feed_byte(b)
    return WirePort('wire')


def buffer_port(mido):
    """(a') a lock-protected device port with a block buffer: _receive reads what the device holds and then marks
    it consumed (two steps), _send appends a whole message.  It relies on the port lock keeping _send and
    _receive apart, as every real backend port does."""
    from mido.ports import BaseIOPort

    class BufferPort(BaseIOPort):
        def _open(self, **kw):
            self.buf = []

        def _send(self, msg):
            data = msg.bytes()
            self.buf = self.buf + data

        def _receive(self, block=True):
            data = list(self.buf)
            self.buf = []
            self._parser.feed(data)
    return BufferPort('buffer')


def make_port(cx, mido, kind):
    from mido import ports
    if kind == 'wire':
        return wire_port(mido)
    if kind == 'buffer':
        return buffer_port(mido)
    if kind == 'echo':
        return ports.EchoPort()
    if kind == 'ioport':
        w = wire_port(mido)
        return ports.IOPort(w, w)
    if kind == 'multi':
        return ports.MultiPort([ports.EchoPort(), ports.EchoPort()])
    raise AssertionError(kind)


def sym_note(cx, mido, tag, channel):
    return mido.Message('note_on', channel=channel, note=cx.int(tag + 'note', 0, 127),
                        velocity=cx.int(tag + 'vel', 0, 127))


@harness(labels=['no-call-raises', 'every-call-returns', 'each-message-exactly-once', 'messages-intact',
                 'per-sender-order', 'received-is-a-copy'])
def concurrent(cx, kind, program, max_preempt, free_choices=True):
    """program: (number of sender threads, messages per sender, receivers,
    receiver style)."""
    import mido
    nsend, per, nrecv, style = program
    with World(cx, max_preempt, free_choices) as S:
        port = make_port(cx, mido, kind)
        factor = 2 if kind == 'multi' else 1           # a MultiPort fans a send out to both children
        sent = [[sym_note(cx, mido, 's%d_%d_' % (i, j), i) for j in range(per)] for i in range(nsend)]
        snapshot = [[(m.channel, m.note, m.velocity) for m in ms] for ms in sent]
        total = nsend * per * factor
        received = [[] for _ in range(nrecv)]

        def sender(i):
            def run():
                for m in sent[i]:
                    port.send(m)
                    m.velocity = cx.ite(m.velocity != 0, 0, 1)      # mutate AFTER send returned
            return run

        def receiver(r):
            share = total // max(nrecv, 1) + (1 if r < total % max(nrecv, 1) else 0)

            def run():
                if style == 'receive':
                    for _ in range(share):
                        received[r].append(port.receive())
                elif style == 'poll':
                    for _ in range(share + 1):
                        m = port.poll()
                        if m is not None:
                            received[r].append(m)
                else:
                    for _ in range(2):
                        received[r].extend(port.iter_pending())
            return run
        ths = [S.spawn(sender(i), 'send%d' % i) for i in range(nsend)]
        ths += [S.spawn(receiver(r), 'recv%d' % r) for r in range(nrecv)]
        try:
            S.run()
        except sc.Stuck as e:
            cx.fail('every-call-returns', detail='%s; schedule=%s' % (e, S.trace[-40:]))
            return
        for t in ths:
            if t.exc is not None:
                cx.fail('no-call-raises:%s' % type(t.exc).__name__,
                        detail='%r in %s; schedule=%s' % (t.exc, t.name, S.trace[-40:]))
        if any(t.exc is not None for t in ths):
            return
        cx.reach('no-call-raises')
        cx.reach('every-call-returns')
        # whatever the receivers did not take is still in the port: drain it now
        rest = []
        for _ in range(total + 2):
            m = port.poll()
            if m is None:
                break
            rest.append(m)
        got = [m for r in received for m in r] + rest
        cx.observe('n_received', len(got))
        cx.check(len(got) == total and all(m is not None for m in got), 'each-message-exactly-once')
        if len(got) != total or any(m is None for m in got):
            return
        # every received message is exactly one of the sent ones (as they were when sent)
        import itertools

        def same(m, snap):
            return cx.And(m.type == 'note_on', cx.eq(m.note, snap[1]), cx.eq(m.velocity, snap[2]))
        for i in range(nsend):
            mine = [m for m in got if decide_chan(cx, m, i)]
            cx.check(len(mine) == per * factor, 'each-message-exactly-once')
            if len(mine) != per * factor:
                return
            want = [snapshot[i][j] for j in range(per) for _ in range(factor)]
            perms = set(itertools.permutations(range(len(want))))
            cx.check(cx.Or(*[cx.And(*[same(mine[k], want[p[k]]) for k in range(len(want))]) for p in perms]),
                     'messages-intact')
            cx.check(all(m is not o for m in mine for o in sent[i]), 'received-is-a-copy')
            # order as seen by one receiver (or by the final drain): send order
            if factor == 1 and per == 2:
                for seq in received + [rest]:
                    both = [m for m in seq if decide_chan(cx, m, i)]
                    if len(both) == 2:
                        cx.check(cx.And(same(both[0], snapshot[i][0]), same(both[1], snapshot[i][1])), 'per-sender-order')
        cx.reach('per-sender-order')


def decide_chan(cx, m, i):
    return m is not None and m.type == 'note_on' and bool(m.channel == i)


def _ambiguous(cx, snaps):
    """Two messages of one sender may have equal contents: order is then not observable."""
    for a in range(len(snaps)):
        for b in range(a + 1, len(snaps)):
            if not cx.valid(cx.Or(cx.Not(cx.eq(snaps[a][1], snaps[b][1])), cx.Not(cx.eq(snaps[a][2], snaps[b][2])))):
                return True
    return False


@harness(labels=['no-call-raises', 'every-call-returns', 'relay-delivers'])
def relay(cx, max_preempt):
    """One thread forwards what is pending on a sub-port to the MultiPort from INSIDE its iteration over
    iter_pending(), another thread polls the MultiPort: two locks are taken in both orders only if a lock is
    held across a yield."""
    import mido
    from mido import ports
    with World(cx, max_preempt) as S:
        sub1, sub2 = ports.EchoPort(), ports.EchoPort()
        multi = ports.MultiPort([sub1, sub2])
        m = sym_note(cx, mido, 'r_', 3)
        sub1.send(m)
        got = []

        def forwarder():
            for x in sub1.iter_pending():
                multi.send(x)
                break                     # (one message: the MultiPort echoes into sub1 again)

        def poller():
            for _ in range(2):
                y = multi.poll()
                if y is not None:
                    got.append(y)
        ths = [S.spawn(forwarder, 'forwarder'), S.spawn(poller, 'poller')]
        try:
            S.run()
        except sc.Stuck as e:
            cx.fail('every-call-returns', detail='%s; schedule=%s' % (e, S.trace[-40:]))
            return
        for t in ths:
            if t.exc is not None:
                cx.fail('no-call-raises:%s' % type(t.exc).__name__, detail='%r in %s' % (t.exc, t.name))
                return
        cx.reach('no-call-raises')
        cx.reach('every-call-returns')
        rest = []
        for _ in range(8):
            y = multi.poll()
            if y is None:
                break
            rest.append(y)
        allm = got + rest
        cx.check(len(allm) >= 1 and cx.And(*[cx.And(cx.eq(y.note, m.note), cx.eq(y.velocity, m.velocity)) for y in allm]),
                 'relay-delivers')


@harness(labels=['no-call-raises', 'every-call-returns', 'shared-subport:exactly-once-intact', 'received-is-a-copy'])
def shared_subport(cx, max_preempt, route):
    """One device port reached along two routes at once: through a MultiPort that holds it, and directly (or
    through a second MultiPort).  The sub-port's own lock has to serialise the two writers."""
    import mido
    from mido import ports
    with World(cx, max_preempt) as S:
        wire = wire_port(mido)
        multi = ports.MultiPort([wire])
        other = wire if route == 'direct' else ports.MultiPort([wire])
        a, b = sym_note(cx, mido, 'a_', 0), sym_note(cx, mido, 'b_', 1)
        snap = [(m.channel, m.note, m.velocity) for m in (a, b)]

        def via_multi():
            multi.send(a)
            a.velocity = cx.ite(a.velocity != 0, 0, 1)

        def via_other():
            other.send(b)
            b.velocity = cx.ite(b.velocity != 0, 0, 1)
        ths = [S.spawn(via_multi, 'via_multi'), S.spawn(via_other, 'via_other')]
        try:
            S.run()
        except sc.Stuck as e:
            cx.fail('every-call-returns', detail='%s; schedule=%s' % (e, S.trace[-40:]))
            return
        for t in ths:
            if t.exc is not None:
                cx.fail('no-call-raises:%s' % type(t.exc).__name__, detail='%r in %s' % (t.exc, t.name))
                return
        cx.reach('no-call-raises')
        cx.reach('every-call-returns')
        got = []
        for _ in range(4):
            y = wire.poll()
            if y is None:
                break
            got.append(y)
        cx.observe('n_received', len(got))
        ok = len(got) == 2
        cx.check(ok, 'shared-subport:exactly-once-intact')
        if not ok:
            return
        for i, orig in enumerate((a, b)):
            mine = [m for m in got if decide_chan(cx, m, i)]
            cx.check(len(mine) == 1 and cx.And(mine[0].type == 'note_on', cx.eq(mine[0].note, snap[i][1]),
                                               cx.eq(mine[0].velocity, snap[i][2])),
                     'shared-subport:exactly-once-intact')
            cx.check(all(m is not orig for m in mine), 'received-is-a-copy')


@harness(labels=['no-call-raises', 'every-call-returns', 'queue-exactly-once-intact'])
def parser_queue(cx, nput, max_preempt):
    """backends._parser_queue.ParserQueue: concurrent put_bytes of whole
    messages and a polling consumer."""
    import mido
    from mido.backends._parser_queue import ParserQueue
    with World(cx, max_preempt, trace_parser=True) as S:      # yield points inside Parser/Tokenizer too
        q = ParserQueue()
        msgs = [sym_note(cx, mido, 'p%d_' % i, i) for i in range(nput)]
        got = []

        def putter(i):
            return lambda: q.put_bytes(msgs[i].bytes())

        def consumer():
            for _ in range(nput + 1):
                m = q.poll()
                if m is not None:
                    got.append(m)
        ths = [S.spawn(putter(i), 'put%d' % i) for i in range(nput)] + [S.spawn(consumer, 'consumer')]
        try:
            S.run()
        except sc.Stuck as e:
            cx.fail('every-call-returns', detail=str(e))
            return
        for t in ths:
            if t.exc is not None:
                cx.fail('no-call-raises:%s' % type(t.exc).__name__, detail='%r in %s' % (t.exc, t.name))
                return
        cx.reach('no-call-raises')
        cx.reach('every-call-returns')
        got += list(q.iterpoll())
        ok = len(got) == nput
        if ok:
            for i in range(nput):
                mine = [m for m in got if bool(m.channel == i)]
                ok = ok and len(mine) == 1 and cx.And(cx.eq(mine[0].note, msgs[i].note),
                                                      cx.eq(mine[0].velocity, msgs[i].velocity))
        cx.check(ok, 'queue-exactly-once-intact')


BOUNDS = {
    'quick': 'every schedule with <=1 preemption (<=2 for the two-thread one-message programs; four-thread programs: <=1 deviation from a '
             'round-robin scheduler, a deviation being a preemption or a non-default pick at a blocking point) at source-LINE granularity (mido/ports.py, '
             '_parser_queue.py and the device double; calls into parser/tokenizer/message code are atomic) of programs with 1-2 senders x 1-2 messages and 1-2 receivers using '
             'receive / poll / iter_pending (plus two senders alone with one more preemption), on a lock-protected byte-wise device port, EchoPort, the IOPort wrapper over the '
             'device port and a MultiPort over two EchoPorts; a block-buffer device port (read, then mark consumed) under 5 programs; one device port written through a MultiPort and directly / through a second MultiPort at once (<=2 preemptions); message contents (note, velocity) symbolic; the sender mutates its '
             'message after send() returned; a forwarder thread that sends to a MultiPort from inside its iteration over a sub-port while another thread polls; ParserQueue with 2 concurrent put_bytes and a poller (here every line of parser.py and tokenizer.py is a yield point too)',
    'thorough': '<=2 preemptions for all programs on the device port and EchoPort, and for the two-thread programs on the IOPort wrapper (MultiPort programs and IOPort programs with 3+ threads stay at 1: their '
                'polling loops have several times more yield points); 3 senders and 2 messages per sender with 2 receivers (four threads: <=2 deviations from round-robin)',
}
OUTSIDE = 'preemption INSIDE a source line / between bytecodes; more than 3 preemptions; more than 4 threads; real OS scheduling; ' \
          'backends that run their own threads (rtmidi callbacks). On the schedule dimension the solver certifies each ' \
          'feasible decision sequence and that none is left; the whole-domain verdict is over the message contents'
ASSUMPTIONS = ['threading.RLock is replaced by a cooperative re-entrant lock with the same mutual-exclusion contract; sleep() is a '
               'yield that lets the other threads run first',
               'exactly one thread runs between two yield points (line boundaries of the traced files)']


PROGRAMS = [(1, 1, 1, 'receive'), (1, 1, 2, 'poll'), (2, 1, 1, 'receive'), (2, 1, 2, 'poll'), (2, 1, 2, 'receive'),
            (1, 2, 1, 'receive'), (1, 2, 2, 'poll'), (2, 1, 1, 'iter_pending'), (1, 2, 1, 'poll')]


def JOBS(tier):
    quick = tier == 'quick'
    jobs = []
    p = 1 if quick else 2
    for kind in ('wire', 'echo', 'ioport', 'multi'):
        for prog in PROGRAMS:
            if kind == 'multi' and prog[1] > 1:
                continue
            nthreads = prog[0] + prog[2]
            # (MultiPort, and the IOPort wrapper with three or more threads, stay at one preemption in both tiers:
            #  their polling loops have several times more yield points)
            params = {'kind': kind, 'program': prog,
                      'max_preempt': 1 if kind == 'multi' or (kind == 'ioport' and nthreads >= 3) else p}
            if nthreads >= 4:
                # four threads: deviation bounding (round-robin picks at blocking points, a different
                # pick costs like a preemption) instead of free choices at every blocking point
                params['free_choices'] = False
            jobs.append((concurrent, params, {'cost': 10 ** nthreads, 'use_trace': False}))
        # two senders racing on a fresh port, nobody receiving meanwhile (the port is drained afterwards):
        # two threads only, so two preemptions are affordable
        if kind != 'ioport':
            jobs.append((concurrent, {'kind': kind, 'program': (2, 1, 0, 'none'), 'max_preempt': p + 1},
                         {'cost': 800, 'use_trace': False}))
        # one more preemption for the two-thread programs
        for prog in PROGRAMS:
            if prog[0] + prog[2] == 2 and prog[1] == 1 and not (kind == 'multi' and prog[1] > 1):
                jobs.append((concurrent, {'kind': kind, 'program': prog, 'max_preempt': p + 1},
                             {'cost': 500, 'use_trace': False}))
    if not quick:
        for kind in ('wire', 'echo'):
            jobs.append((concurrent, {'kind': kind, 'program': (3, 1, 1, 'receive'), 'max_preempt': 2,
                                      'free_choices': False}, {'cost': 500, 'use_trace': False}))
            jobs.append((concurrent, {'kind': kind, 'program': (2, 2, 2, 'receive'), 'max_preempt': 2,
                                      'free_choices': False}, {'cost': 500, 'use_trace': False}))
    # the block-buffer device: _send and _receive must exclude each other
    for prog in ((1, 1, 1, 'poll'), (1, 2, 1, 'poll'), (1, 1, 1, 'receive'), (2, 1, 1, 'iter_pending'), (1, 2, 1, 'receive')):
        jobs.append((concurrent, {'kind': 'buffer', 'program': prog, 'max_preempt': p}, {'cost': 300, 'use_trace': False}))
    jobs.append((concurrent, {'kind': 'buffer', 'program': (1, 1, 1, 'poll'), 'max_preempt': p + 1}, {'cost': 500, 'use_trace': False}))
    for route in ('direct', 'second-multiport'):
        jobs.append((shared_subport, {'max_preempt': p + 1, 'route': route}, {'cost': 300, 'use_trace': False}))
    jobs.append((relay, {'max_preempt': p}, {'cost': 300, 'use_trace': False}))
    jobs.append((parser_queue, {'nput': 2, 'max_preempt': p}, {'cost': 50, 'use_trace': False}))
    jobs.append((parser_queue, {'nput': 1, 'max_preempt': p}, {'use_trace': False}))
    return jobs
