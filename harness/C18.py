"""C18 - Socket ports deliver exactly the complete messages before a disconnect."""
from pysym import fakenet
from pysym.cx import harness

from .C06 import sym_message
from .C11 import Env, Hang
from .common import decide

KINDS = ['note_on', 'program_change', 'pitchwheel', 'sysex0', 'sysex2', 'clock', 'songpos', 'tune_request']


class Net:
    """Installs the socket/select doubles into mido.sockets (both modes) and
    the counting fake sleep into mido.ports."""

    def __enter__(self):
        import mido.sockets as ms
        self.ms = ms
        self.old = (ms.socket, ms.select)
        ms.socket, ms.select = fakenet.FakeSocketModule, fakenet.FakeSelectModule
        fakenet.reset()
        self.env = Env()
        self.env.__enter__()
        return self

    def __exit__(self, *a):
        self.env.__exit__()
        self.ms.socket, self.ms.select = self.old
        return False


def _msg(cx, mido, kind, tag):
    if kind.startswith('sysex'):
        return sym_message(cx, mido, 'sysex', L=int(kind[5:]), tag=tag)
    return sym_message(cx, mido, kind, tag=tag)


def _drain(cx, port, budget=200):
    """for msg in port - with a step bound so that a bug cannot hang the run."""
    got = []
    it = iter(port)
    for _ in range(budget):
        try:
            got.append(next(it))
        except StopIteration:
            return got, None
        except Hang:
            return got, 'hang'
        except Exception as e:     # noqa: BLE001
            return got, e
    return got, 'endless'


@harness(labels=['iteration-ends-without-exception', 'exactly-the-complete-messages', 'port-reports-closed',
                 'descriptor-released'])
def sock_cut(cx, kinds):
    """The peer sends the encodings of the messages, cut at a SYMBOLIC byte
    offset, in an arbitrary segmentation (symbolic pause before each byte),
    then disconnects."""
    import mido
    from mido.sockets import SocketPort
    msgs = [_msg(cx, mido, k, 'm%d_' % i) for i, k in enumerate(kinds)]
    stream = [b for m in msgs for b in m.bytes()]
    ends = []
    n = 0
    for m in msgs:
        n += len(m.bytes())
        ends.append(n)
    total = len(stream)
    cut = cx.int('cut', 0, total)
    k = 0
    while k < total and bool(k < cut):        # forks: k becomes the concrete cut
        k += 1
    with Net() as net:
        a, b = fakenet.socketpair()
        port = SocketPort('peer', 1234, conn=a)
        a.ep.inbox.extend(stream[:k])
        a.ep.pauses = lambda i: cx.bool('pause%d' % i)
        b.close()                              # the peer disconnects (or dies) after byte k
        net.env.budget = total + 3              # at most one pause per byte can make the reader wait
        got, err = _drain(cx, port)
        cx.check(err is None, 'iteration-ends-without-exception')
        want = [m for m, e in zip(msgs, ends) if e <= k]
        cx.observe('received', [m.bytes() for m in got])
        cx.check(len(got) == len(want) and all(g == w for g, w in zip(got, want)), 'exactly-the-complete-messages')
        cx.check(port.closed, 'port-reports-closed')
        cx.check(a.ep.released, 'descriptor-released')


@harness(labels=['peer-sees-eof', 'send-after-peer-close-raises-OSError', 'port-closes-on-broken-pipe',
                 'messages-before-close-arrive'])
def sock_close(cx, kind):
    import mido
    from mido.sockets import SocketPort
    m = _msg(cx, mido, kind, 'm_')
    with Net():
        a, b = fakenet.socketpair()
        port = SocketPort('peer', 1, conn=a)
        peer = SocketPort('me', 2, conn=b)
        port.send(m)
        port.close()
        got, err = _drain(cx, peer)
        cx.check(err is None and len(got) == 1 and got[0] == m, 'messages-before-close-arrive')
        cx.check(peer.closed, 'peer-sees-eof')
    with Net():
        a, b = fakenet.socketpair()
        port = SocketPort('peer', 1, conn=a)
        b.close()
        _, e = cx.raises(lambda: port.send(m), OSError, label='send-after-peer-close-raises-OSError')
        cx.check(e is not None, 'send-after-peer-close-raises-OSError')
        cx.check(port.closed, 'port-closes-on-broken-pipe')


@harness(labels=['server-hands-out-every-message', 'server-receive-terminates', 'server-poll-none-when-empty',
                 'per-client-order', 'server-close-closes-clients'])
def server(cx, nclients, nmsgs):
    import mido
    from mido.sockets import PortServer
    with Net() as net:
        srv = PortServer('localhost', 9000)
        try:
            cx.check(srv.poll() is None and net.env.total == 0, 'server-poll-none-when-empty')
        except Hang:
            cx.fail('server-poll-none-when-empty')       # a poll that waits
            return
        clients = []
        sent = []
        for c in range(nclients):
            cs = fakenet.queue_connection(srv._socket, ('client%d' % c, 5000 + c))
            clients.append(cs)
            mine = []
            for j in range(nmsgs):
                m = mido.Message('note_on', channel=c, note=cx.int('n%d_%d' % (c, j), 0, 127))
                cs.send(m.bytes())
                mine.append(m)
            sent.append(mine)
        blocking = cx.bool('blocking')
        got = []
        for _ in range(nclients * nmsgs):
            net.env.sleeps = 0
            try:
                if blocking:
                    r = srv.receive()
                else:
                    r = None
                    for _try in range(nclients + 2):
                        r = srv.poll()
                        if r is not None:
                            break
                got.append(r)
            except Hang:
                cx.fail('server-receive-terminates')
                break
        cx.check(len(got) == nclients * nmsgs and all(g is not None for g in got), 'server-receive-terminates')
        got = [g for g in got if g is not None]
        for c in range(nclients):
            cx.check([g for g in got if g.channel == c] == sent[c], 'per-client-order')
        cx.check(sorted(g.channel for g in got) == sorted(m.channel for ms in sent for m in ms),
                 'server-hands-out-every-message')
        net.env.sleeps = 0
        cx.check(srv.poll() is None, 'server-poll-none-when-empty')
        ports = list(srv.ports)
        srv.close()
        cx.check(all(p.closed for p in ports) and srv.closed, 'server-close-closes-clients')


HOSTS = ['localhost', '', '127.0.0.1', 'a-b.example.org', 'h' * 40, 'Studio', 'NAS01.lan', ' spaced host ']
BAD_ADDR = ['', ':', 'localhost', 'localhost:', ':abc', 'a:b:c', '::1:80', 'host:80:', 'host:8o', 'host:1.5',
            'host: ', 'host:０']


@harness(labels=['parse(format(h,p))==(h,p)', 'out-of-range-rejected', 'format-has-one-colon'])
def addr(cx):
    from mido.sockets import format_address, parse_address
    h = HOSTS[cx.choice('host', len(HOSTS))]
    p = cx.int('port', -2 ** 20, 2 ** 20)
    text = format_address(h, p)
    cx.check(text.count(':') == 1 and text.startswith(h + ':'), 'format-has-one-colon')
    r, e = cx.raises(lambda: parse_address(text), ValueError, label='out-of-range-rejected')
    ok = cx.And(1 <= p, p <= 65535)
    if e is not None:
        cx.check(cx.Not(ok), 'parse(format(h,p))==(h,p)')
    else:
        cx.check(ok, 'out-of-range-rejected')
        cx.check(r[0] == h and cx.eq(r[1], p) and isinstance(r, tuple), 'parse(format(h,p))==(h,p)')
        cx.observe('parsed_host', r[0])


@harness(labels=['malformed-rejected'])
def addr_invalid(cx):
    from mido.sockets import parse_address
    t = BAD_ADDR[cx.choice('bad', len(BAD_ADDR))]
    _, e = cx.raises(lambda: parse_address(t), ValueError, label='malformed-rejected')
    cx.check(e is not None, 'malformed-rejected')


def _scenarios(mido, real):
    """A fixed battery run once on real socket.socketpair() and once on the
    model: the outcomes must agree (validates pysym/fakenet.py)."""
    import socket as realsocket
    from mido.sockets import SocketPort
    import mido.ports as mp
    out = []
    mk = realsocket.socketpair if real else fakenet.socketpair

    def drain(port):
        got = []
        try:
            for m in port:
                got.append(m.bytes())
                if len(got) > 20:
                    break
            return got, 'ended', port.closed
        except Exception as e:      # noqa: BLE001
            return got, type(e).__name__, port.closed

    def peer_write(b, data):
        if real:
            b.sendall(bytes(data))
        else:
            b.send(bytes(data))

    # S1 two messages then disconnect
    a, b = mk()
    p = SocketPort('x', 1, conn=a)
    peer_write(b, [0x90, 1, 2, 0xF8])
    b.close()
    out.append(('S1', drain(p)))
    # S2 disconnect at once
    a, b = mk()
    p = SocketPort('x', 1, conn=a)
    b.close()
    out.append(('S2', drain(p)))
    # S3 partial message then disconnect
    a, b = mk()
    p = SocketPort('x', 1, conn=a)
    peer_write(b, [0x90, 1, 2, 0x80, 5])
    b.close()
    out.append(('S3', drain(p)))
    # S4 closing the port is seen by the peer as end-of-file
    a, b = mk()
    p = SocketPort('x', 1, conn=a)
    p.send(mido.Message('clock'))
    p.close()
    if real:
        b.settimeout(2)
        try:
            d = b.recv(10) + b.recv(10)
            out.append(('S4', list(d), 'eof'))
        except Exception as e:      # noqa: BLE001
            out.append(('S4', type(e).__name__))
        b.close()
    else:
        f = b.makefile('rb')
        sel = fakenet.FakeSelectModule.select
        d = []
        while sel([b.fileno()], [], [], 0)[0]:
            x = f.read(1)
            if len(x) == 0:
                break
            d += list(x)
        out.append(('S4', d, 'eof' if (sel([b.fileno()], [], [], 0)[0] and f.read(1) == b'') else 'open'))
    # S5 send after the peer is gone
    a, b = mk()
    p = SocketPort('x', 1, conn=a)
    b.close()
    try:
        p.send(mido.Message('clock'))
        out.append(('S5', 'sent', p.closed))
    except OSError:
        out.append(('S5', 'OSError', p.closed))
    # S6 poll with nothing to read
    a, b = mk()
    p = SocketPort('x', 1, conn=a)
    out.append(('S6', p.poll(), p.closed))
    peer_write(b, [0xF0, 1, 2])
    out.append(('S6b', p.poll(), p.closed))
    peer_write(b, [0xF7])
    m = p.poll()
    out.append(('S6c', m.bytes() if m else None, p.closed))
    p.close()
    b.close()
    return out


@harness(labels=['model-agrees-with-real-sockets'])
def model_validation(cx):
    import mido
    import mido.ports as mp
    from pysym import stubs
    stubs.uninstall()             # this harness is concrete in both modes: real sockets need real bytes
    old_sleep = mp.sleep
    mp.sleep = lambda: None
    try:
        real = _scenarios(mido, True)
    finally:
        mp.sleep = old_sleep
    with Net():
        model = _scenarios(mido, False)
    cx.observe('scenarios', len(real))
    cx.check(real == model, 'model-agrees-with-real-sockets')
    if real != model:
        cx.observe('diff', [(r, m) for r, m in zip(real, model) if r != m])


@harness(labels=['poll-returns-with-a-silent-peer'])
def silent_peer(cx):
    """The peer sends n bytes of messages and then stays connected and silent: poll() must hand out what has
    arrived and come back (a read on the drained, still-open connection would block for ever)."""
    import mido
    from mido.sockets import SocketPort
    n = [1, 2, 341, 342, 683, 1000][cx.choice('count', 6)]      # 3n bytes: 1023 < 1024 = 342*3-2 ... block sizes around 1k/2k
    extra = cx.choice('extra', 3)                                 # plus 0..2 bytes of an unfinished message
    with Net() as net:
        a, b = fakenet.socketpair()
        port = SocketPort('peer', 1, conn=a)
        msgs = [mido.Message('note_on', note=i % 128, velocity=(i // 128) % 128) for i in range(n)]
        stream = [x for m in msgs for x in m.bytes()] + [0x90, 1][:extra]
        b.send(stream)
        got = []
        try:
            for _ in range(n + 3):
                m = port.poll()
                if m is None:
                    break
                got.append(m)
        except (BlockingIOError, OSError) as e:
            cx.fail('poll-returns-with-a-silent-peer', detail='%r' % (e,))
            return
        cx.check(got == msgs and not port.closed, 'poll-returns-with-a-silent-peer')


@harness(labels=['burst-then-disconnect-nothing-lost'])
def burst(cx):
    """Concrete scale probe: a client sends a burst of messages and disconnects before the server reads."""
    import mido
    from mido.sockets import PortServer
    n = [3, 256, 257, 700][cx.choice('count', 4)]
    with Net() as net:
        net.env.budget = 50
        srv = PortServer('localhost', 9000)
        cs = fakenet.queue_connection(srv._socket)
        msgs = [mido.Message('note_on', note=i % 128, velocity=(i // 128) % 128) for i in range(n)]
        cs.send([b for m in msgs for b in m.bytes()])
        cs.close()
        got = []
        for _ in range(n + 5):
            try:
                m = srv.poll()
            except Hang:
                break
            if m is not None:
                got.append(m)
        cx.check(len(got) == n and got == msgs, 'burst-then-disconnect-nothing-lost')


BOUNDS = {
    'quick': 'streams of 1..3 messages over 8 kinds (symbolic contents incl. sysex) cut at a SYMBOLIC offset 0..total, every '
             'segmentation (a symbolic pause before each byte), then the peer disconnects: exactly the complete messages, '
             'iteration ends, port closed, descriptor released; close seen as EOF by the peer; send after peer close; '
             'PortServer with 0..2 clients x 0..2 messages, blocking and polling; format/parse address with the port symbolic over '
             '+-2^20 and 8 hosts (mixed case, blanks), 12 malformed addresses; a burst of 3..700 messages followed by a disconnect (concrete probe); the socket model is compared with real socket.socketpair() on a '
             'battery of 8 scenarios on every run',
    'thorough': 'all ordered triples of the 8 kinds',
}
OUTSIDE = 'TCP-level behaviour (RST, partial writes, timeouts), real accept(); host names containing a colon; the socket model ' \
          '(pysym/fakenet.py) is a stated assumption, validated on the scenario battery only'
ASSUMPTIONS = ['stream-socket model: ordered bytes, EOF after the peer released its descriptor (socket and every makefile object '
               'closed), EPIPE on write to a released peer; select() readable on data, EOF or pending connection']


def JOBS(tier):
    quick = tier == 'quick'
    jobs = []
    for a in KINDS:
        jobs.append((sock_cut, {'kinds': [a]}, {'cost': 10}))
        for b in KINDS:
            jobs.append((sock_cut, {'kinds': [a, b]}, {'cost': 100}))
    trip = [('note_on', 'sysex2', 'clock'), ('sysex0', 'note_on', 'note_on'), ('clock', 'clock', 'pitchwheel')] if quick else \
        [(a, b, c) for a in KINDS for b in KINDS for c in KINDS]
    for t in trip:
        jobs.append((sock_cut, {'kinds': list(t)}, {'cost': 2000}))
    for k in KINDS:
        jobs.append((sock_close, {'kind': k}, {}))
    for nc in (0, 1, 2):
        for nm in (0, 1, 2):
            jobs.append((server, {'nclients': nc, 'nmsgs': nm}, {}))
    jobs.append((addr, {}, {}))
    jobs.append((burst, {}, {'cost': 50}))
    jobs.append((silent_peer, {}, {'cost': 50}))
    jobs.append((addr_invalid, {}, {}))
    jobs.append((model_validation, {}, {}))
    return jobs
