"""C04 - The parser is total and sound on arbitrary byte streams."""
from pysym.cx import harness
from pysym.core import Unmodelled

from .common import REALTIME, decide, is_rt_status, is_subsequence, wellformed_bytes

INF = float('inf')


def _judge_stream(cx, mido, bs, msgs):
    """The statement's clauses for input bytes `bs` and parsed `msgs`."""
    cx.check(all(isinstance(m, mido.Message) for m in msgs), 'messages')
    enc = [m.bytes() for m in msgs]
    cx.observe('parsed', enc)
    cx.check(cx.And(*[wellformed_bytes(cx, e) for e in enc]), 'every-message-valid')
    rt_in = [b for b in bs if is_rt_status(cx, b)]
    rt_out = [e[0] for m, e in zip(msgs, enc) if m.type in REALTIME]
    cx.check(len(rt_in) == len(rt_out) and cx.And(*[cx.eq(a, b) for a, b in zip(rt_in, rt_out)]),
             'realtime-exactly-once-in-order')
    rest_in = [b for b in bs if not is_rt_status(cx, b)]
    rest_out = [x for m, e in zip(msgs, enc) if m.type not in REALTIME for x in e]
    cx.check(is_subsequence(cx, rest_out, rest_in), 'others-subsequence-of-input')


@harness(labels=['messages', 'every-message-valid', 'realtime-exactly-once-in-order',
                 'others-subsequence-of-input'])
def parse_stream(cx, N, part=None):
    """Bounded direct harness: every byte string of length N over 0..255
    through mido.parse_all (any exception = violation)."""
    import mido
    bs = [cx.int('b%d' % i, 0, 255) for i in range(N)]
    if part is not None:
        lo, hi = part
        cx.assume(cx.And(lo <= bs[0], bs[0] <= hi))
    msgs = mido.parse_all(bs)
    _judge_stream(cx, mido, bs, msgs)


def ref_len(cx, s):
    """Spec length for a status that opens a multi-byte message (forks)."""
    if s < 0xC0:
        return 3
    if s < 0xE0:
        return 2
    if s < 0xF0:
        return 3
    if s == 0xF0:
        return INF
    if s == 0xF1:
        return 2
    if s == 0xF2:
        return 3
    return 2       # F3


def _inv(cx, tok):
    """Representation invariant of the tokenizer (formula or bool)."""
    st = tok._status
    if decide(cx, st == 0):
        return True
    by = tok._bytes
    opens = cx.Or(cx.And(0x80 <= st, st <= 0xEF), cx.And(0xF0 <= st, st <= 0xF3))
    if not decide(cx, opens):
        return False
    L = ref_len(cx, st)
    return cx.And(len(by) >= 1, cx.eq(by[0], st), tok._len == L, len(by) < L,
                  *[cx.And(0 <= d, d <= 127) for d in by[1:]])


@harness(labels=['no-exception', 'emitted-from-buffer', 'emitted-valid', 'queue-decoded',
                 'realtime-exactly-once', 'invariant-kept', 'buffer-step', 'pre-reached'])
def tok_step(cx, k, active):
    """Inductive step: ANY tokenizer state satisfying the invariant (built
    directly), one arbitrary byte 0..255 through the real Parser.feed_byte."""
    import mido
    p = mido.Parser()
    tok = getattr(p, '_tok', None)
    if tok is None or not all(hasattr(tok, a) for a in ('_status', '_bytes', '_messages')):
        raise Unmodelled('tokenizer internals (_tok._status/_bytes/_messages) not found: '
                         'the inductive harness cannot build its pre-state')
    if active:
        s = cx.int('status', 0x80, 0xF3)
        cx.assume(cx.Or(s <= 0xEF, s >= 0xF0))
        L = ref_len(cx, s)
        if not (k < L):
            cx.assume(False)
        pre = [s] + [cx.int('d%d' % i, 0, 127) for i in range(k - 1)]
        tok._status = s
        tok._bytes = pre
        tok._len = L
    else:
        # idle: stale buffer contents are arbitrary
        pre = [cx.int('stale%d' % i, 0, 255) for i in range(k)]
        tok._status = 0
        tok._bytes = pre
        tok._len = [1, 2, 3, INF][cx.choice('stale_len', 4)]
    cx.reach('pre-reached')
    pre_items = list(pre)
    pre_list = tok._bytes
    b = cx.int('b', 0, 255)
    _, exc = cx.raises(lambda: p.feed_byte(b), label='no-exception')
    if exc is not None:
        return
    out = list(p.messages)
    cx.check(len(tok._messages) == 0, 'queue-decoded')
    enc = [m.bytes() for m in out]
    cx.observe('emitted', enc)
    cx.observe('post', [tok._status, list(tok._bytes)])
    rt = is_rt_status(cx, b)
    n_rt = sum(1 for m in out if m.type in REALTIME)
    cx.check(n_rt == (1 if rt else 0) and len(out) - n_rt <= 1, 'realtime-exactly-once')
    for m, e in zip(out, enc):
        cx.check(wellformed_bytes(cx, e), 'emitted-valid')
        if m.type in REALTIME or len(e) == 1:
            cx.check(cx.eq(e, [b]), 'emitted-from-buffer')
        else:
            # a multi-byte message is exactly the pre-state buffer plus b
            cx.check(active and cx.eq(e, pre_items + [b]), 'emitted-from-buffer')
    cx.check(_inv(cx, tok), 'invariant-kept')
    # a non-real-time message that comes out ends whatever was being collected: otherwise the old
    # buffer could complete LATER and its bytes would come out after bytes that followed them in the input
    if any(m.type not in REALTIME for m in out):
        cx.check(decide(cx, tok._status == 0), 'buffer-step')
    # buffer step relation (subsequence property by induction)
    if not decide(cx, tok._status == 0):
        post = list(tok._bytes)
        same = active and len(post) == len(pre_items) and all(x is y for x, y in zip(post, pre_items))
        grown = active and len(post) == len(pre_items) + 1 and \
            all(x is y for x, y in zip(post, pre_items)) and post[-1] is b
        fresh = len(post) == 1 and decide(cx, post[0] == b)
        cx.check(same or grown or fresh, 'buffer-step')
        emitted_multi = any(m.type not in REALTIME and len(e) > 1 for m, e in zip(out, enc))
        cx.check(not emitted_multi, 'buffer-step')
        if fresh:
            cx.check(tok._bytes is not pre_list, 'buffer-step')   # never reuse an emitted list


# first-byte ranges that split a stream harness over the worker pool (a covering partition of 0..255)
PARTS = [(0, 127)] + [(128 + 8 * i, 128 + 8 * i + 7) for i in range(14)] + [(b, b) for b in range(0xF0, 0x100)]

ALIAS_MSGS = [[0x90, 0x3C, 0x64], [0xC5, 0x07], [0xE0, 0x00, 0x40], [0xF8], [0xF6], [0xF0, 1, 2, 0xF7], [0xF2, 1, 2]]


@harness(labels=['yielded-messages-are-detached'])
def detached(cx):
    """The consumer changes a message it was handed; the same bytes arriving again must still parse to what
    they encode (messages are not cached or shared).  Concrete menu: the trigger is object identity."""
    import mido
    bs = ALIAS_MSGS[cx.choice('msg', len(ALIAS_MSGS))]
    p = mido.Parser()
    p.feed(bs)
    first = p.get_message()
    want = mido.Message.from_bytes(bs)
    cx.check(first == want, 'yielded-messages-are-detached')
    first.time = 99
    for name in list(vars(first)):
        if name in ('note', 'program', 'pitch', 'pos'):
            setattr(first, name, 1)
        if name == 'channel':
            first.channel = 9
        if name == 'data':
            first.data = (5,)
    again = []
    for how in range(3):
        if how == 0:
            p.feed(bs)
        elif how == 1:
            for b in bs:
                p.feed_byte(b)
        else:
            p.feed(bs + bs)
        again += list(p)
    again += mido.parse_all(bs)
    cx.check(len(again) == 5 and all(m == want and m is not first for m in again), 'yielded-messages-are-detached')


@harness(labels=['long-stream-nothing-dropped'])
def scale(cx):
    """Concrete scale probe: a long stream keeps every message (no bounded queue)."""
    import mido
    n = [1025, 65537, 70001][cx.choice('count', 3)]
    stream = []
    last = None
    for i in range(n):
        last = [0xF8] if i % 7 == 0 else [0x90 | (i % 16), i % 128, (i // 128) % 128]
        stream += last
    p = mido.Parser()
    p.feed(stream)
    cx.check(p.pending() == n, 'long-stream-nothing-dropped')
    first = p.get_message()
    cx.check(first is not None and first.type == 'clock', 'long-stream-nothing-dropped')
    rest = list(p)
    cx.check(len(rest) == n - 1 and rest[-1].bytes() == last, 'long-stream-nothing-dropped')


# one representative per byte class, with both edges of the data / status ranges
BYTE_CLASS = [0x00, 0x41, 0x7F, 0x80, 0x93, 0xBF, 0xC2, 0xDF, 0xE1, 0xEF,
              0xF0, 0xF1, 0xF2, 0xF3, 0xF4, 0xF6, 0xF7, 0xF8, 0xF9, 0xFE, 0xFF]
OPEN = [[], [0xF0, 1], [0x90, 2], [0xF2]]
REAL_CONTAINERS = {'bytes': bytes, 'bytearray': bytearray, 'memoryview': lambda c: memoryview(bytes(c)),
                   'tuple': tuple, 'generator': lambda c: (b for b in c)}


def class_stream(cx, N):
    """An opening fragment (possibly leaving a message or a sysex in progress) and N items, one representative
    per byte class each, every item chosen by a certified fork: concrete, so they fit in REAL bytes objects."""
    pre = OPEN[cx.choice('open', len(OPEN))]
    return pre, [BYTE_CLASS[cx.choice('c%d' % i, len(BYTE_CLASS))] for i in range(N)]


@harness(labels=['no-exception', 'messages', 'every-message-valid', 'realtime-exactly-once-in-order',
                 'others-subsequence-of-input'])
def real_containers(cx, N, container):
    """Real bytes / bytearray / memoryview / tuple / generator chunks (a library may treat them on a separate
    path): an opening fragment fed in one call, then N class representatives in a second call of that container."""
    import mido
    pre, items = class_stream(cx, N)
    mk = REAL_CONTAINERS[container]
    p = mido.Parser()
    _, exc = cx.raises(lambda: (p.feed(mk(pre)), p.feed(mk(items))), label='no-exception')
    if exc is None:
        _judge_stream(cx, mido, pre + items, list(p))


@harness(labels=['unterminated-sysex-emits-nothing', 'then-completes'])
def scale_open_sysex(cx):
    """Concrete scale probe: a sysex that is never terminated produces no message however long it gets, and
    still completes when its F7 finally arrives."""
    import mido
    n = [1000, 65536, 131072 + 3, 1048577][cx.choice('len', 4)]
    kind = cx.choice('container', 2)
    body = [0xF0] + [i % 128 for i in range(n)]
    p = mido.Parser()
    p.feed(bytes(body) if kind else body)
    cx.check(p.pending() == 0, 'unterminated-sysex-emits-nothing')
    p.feed([0xF8, 0xF7])
    out = list(p)
    cx.check(len(out) == 2 and out[0].type == 'clock' and out[1].type == 'sysex' and len(out[1].data) == n
             and out[1].data[-1] == (n - 1) % 128, 'then-completes')


NONBYTES = [256, -1, 1.5, 'a', None, 1000, b'\x01']


@harness(labels=['nonbyte-rejected', 'state-unchanged'])
def feed_nonbyte(cx, k):
    """Items outside 0..255 / non-integers: documented TypeError/ValueError and
    the parser is still usable (state unchanged)."""
    import mido
    p = mido.Parser()
    pre = [0x90] + [cx.int('d%d' % i, 0, 127) for i in range(k)]
    p.feed(pre)
    i = cx.choice('item', len(NONBYTES))
    _, exc = cx.raises(lambda: p.feed_byte(NONBYTES[i]), TypeError, ValueError, label='nonbyte-rejected')
    cx.check(exc is not None, 'nonbyte-rejected')
    rest = [cx.int('r%d' % i, 0, 127) for i in range(2 - k)]
    p.feed(rest)
    msgs = list(p)
    cx.check(len(msgs) == 1 and cx.eq(msgs[0].bytes(), pre + rest), 'state-unchanged')


BOUNDS = {
    'quick': 'bounded direct: every byte string of length 0..3 over the full 0..255 alphabet through parse_all; '
             'inductive step: every tokenizer state satisfying the representation invariant with buffer length '
             '1..6 (active, any status that opens a multi-byte message, symbolic data bytes) or idle with 0..3 '
             'arbitrary stale bytes, one arbitrary byte 0..255; non-byte items: 7-value menu; concrete scale probe (streams of 1025..70001 messages)',
    'thorough': 'bounded direct up to length 4 (split into 31 first-byte ranges); inductive buffer length up to 12; real containers with 3 items',
}
OUTSIDE = 'streams longer than the direct bound are covered only through the inductive step, which reads the ' \
          'tokenizer internals _status/_bytes/_len (if they are renamed the harness answers INCONCLUSIVE); ' \
          'items outside 0..255 beyond the menu'
ASSUMPTIONS = [
    'representation invariant of the tokenizer as written in harness/C04.py::_inv; the initial state satisfies it',
    'well-formedness reference harness/C02.py::well_formed',
]


def JOBS(tier):
    jobs = []
    for n in range(0, 3):
        jobs.append((parse_stream, {'N': n}, {'cost': 10 ** n}))
    for part in PARTS:
        jobs.append((parse_stream, {'N': 3, 'part': part}, {'cost': 10 ** 3}))
    if tier != 'quick':
        for part in PARTS:
            jobs.append((parse_stream, {'N': 4, 'part': part}, {'cost': 10 ** 4}))
    kmax = 6 if tier == 'quick' else 12
    for k in range(1, kmax + 1):
        jobs.append((tok_step, {'k': k, 'active': True}, {}))
    for k in range(0, 4):
        jobs.append((tok_step, {'k': k, 'active': False}, {}))
    for k in range(0, 3):
        jobs.append((feed_nonbyte, {'k': k}, {}))
    jobs.append((scale, {}, {'cost': 100}))
    jobs.append((scale_open_sysex, {}, {'cost': 100}))
    for c in REAL_CONTAINERS:
        for n in range(0, (2 if tier == 'quick' else 3) + 1):
            jobs.append((real_containers, {'N': n, 'container': c}, {'cost': 21 ** n}))
    jobs.append((detached, {}, {}))
    return jobs
