"""C09 - Meta message codec accepts and preserves every documented value."""
from pysym.cx import harness
from pysym import stubs

WIDE = 2 ** 40

# documented domains (docs/meta_message_types.rst) and wire layout (SMF 1.0)
INT_TYPES = {
    'sequence_number': (0x00, [('number', 0, 65535)]),
    'channel_prefix': (0x20, [('channel', 0, 255)]),
    'midi_port': (0x21, [('port', 0, 255)]),
    'set_tempo': (0x51, [('tempo', 0, 16777215)]),
    'end_of_track': (0x2F, []),
    'smpte_offset': (0x54, [('hours', 0, 255), ('minutes', 0, 59), ('seconds', 0, 59),
                            ('frames', 0, 255), ('sub_frames', 0, 99)]),
    'time_signature': (0x58, [('numerator', 0, 255), ('clocks_per_click', 0, 255),
                              ('notated_32nd_notes_per_beat', 0, 255)]),
}
FRAME_RATES = [24, 25, 29.97, 30]
TEXT_TYPES = {'text': (0x01, 'text'), 'copyright': (0x02, 'text'), 'track_name': (0x03, 'name'),
              'instrument_name': (0x04, 'name'), 'lyrics': (0x05, 'text'), 'marker': (0x06, 'text'),
              'cue_marker': (0x07, 'text'), 'device_name': (0x09, 'name')}
# key -> (sharps(+)/flats(-), minor?) : circle of fifths, MIDI file spec FF 59 02 sf mi
KEYS = {}
for _i, _k in enumerate(['Cb', 'Gb', 'Db', 'Ab', 'Eb', 'Bb', 'F', 'C', 'G', 'D', 'A', 'E', 'B', 'F#', 'C#']):
    KEYS[_k] = (_i - 7, 0)
for _i, _k in enumerate(['Abm', 'Ebm', 'Bbm', 'Fm', 'Cm', 'Gm', 'Dm', 'Am', 'Em', 'Bm', 'F#m', 'C#m', 'G#m',
                         'D#m', 'A#m']):
    KEYS[_k] = (_i - 7, 1)
KEY_NAMES = sorted(KEYS)
BAD_KEYS = ['H', 'c', 'Cmaj', '', 'Fb', 'E#', 'B#m', None, 0, 1.5, ('C',), b'C']
ASSIGNED = sorted({v[0] for v in INT_TYPES.values()} | {v[0] for v in TEXT_TYPES.values()} | {0x59, 0x7F})
REJECT = (ValueError, TypeError)


def vlq_value(cx, bs):
    """(formula that bs is a well-formed minimal VLQ, its value) - arithmetic."""
    ok = []
    val = 0
    for i, b in enumerate(bs):
        last = i == len(bs) - 1
        if last:
            ok.append(cx.And(0 <= b, b <= 127))
            val = val * 128 + b
        else:
            ok.append(cx.And(128 <= b, b <= 255))
            val = val * 128 + (b - 128)
    if len(bs) > 1:
        ok.append(cx.Not(bs[0] == 128))          # minimal: no leading zero group
    return cx.And(*ok), val


def split_meta(cx, b, type_byte):
    """Checks FF <type> <vlq length> <payload>; returns the payload or None."""
    if len(b) < 3:
        return None
    i = 2
    while i < len(b) - 1 and bool(b[i] >= 128):
        i += 1
    ok, n = vlq_value(cx, b[2:i + 1])
    payload = b[i + 1:]
    good = cx.And(cx.eq(b[0], 0xFF), cx.eq(b[1], type_byte), ok, cx.eq(n, len(payload)),
                  *[cx.And(0 <= x, x <= 255) for x in payload])
    cx.check(good, 'frame')
    return payload


def _decode_both(cx, mido, msg, b, delta, concrete_bytes=False):
    """from_bytes and read_meta_message must both give back an equal message."""
    from mido.midifiles import midifiles as mf
    m2, exc = cx.raises(lambda: mido.MetaMessage.from_bytes(list(b)), label='from_bytes-raises-nothing')
    if exc is None:
        cx.check(type(m2) is type(msg) and m2 == msg.copy(time=0), 'from_bytes-roundtrip')
        cx.observe('from_bytes', vars(m2))
    # the same bytes as an immutable sequence (tuple always; bytes/bytearray when every byte is concrete)
    srcs = [tuple(b)]
    if concrete_bytes:
        srcs += [bytes(int(x) for x in b), bytearray(int(x) for x in b)]
    for src in srcs:
        m4, exc = cx.raises(lambda: mido.MetaMessage.from_bytes(src), label='from_bytes-raises-nothing')
        if exc is None:
            cx.check(type(m4) is type(msg) and m4 == msg.copy(time=0), 'from_bytes-roundtrip')
    f = stubs.SymFile(list(b[1:])) if cx.symbolic else _bio(b[1:])
    m3, exc = cx.raises(lambda: mf.read_meta_message(f, delta), label='read-raises-nothing')
    if exc is None:
        cx.check(type(m3) is type(msg) and m3 == msg.copy(time=delta), 'read-roundtrip')


def _bio(items):
    import io
    return io.BytesIO(bytes(int(x) for x in items))


@harness(labels=['ctor', 'accepted=>documented', 'rejected=>undocumented', 'frame', 'layout',
                 'from_bytes-raises-nothing', 'from_bytes-roundtrip', 'read-raises-nothing', 'read-roundtrip'])
def meta_int(cx, type):
    import mido
    tb, attrs = INT_TYPES[type]
    vals = {a: cx.int(a, -WIDE, WIDE) for a, lo, hi in attrs}
    if type == 'smpte_offset':
        rr = cx.choice('rate', 4)
        vals['frame_rate'] = FRAME_RATES[rr]
    delta = cx.int('delta', 0, 2 ** 28 - 1)
    ok = cx.And(*[cx.And(lo <= vals[a], vals[a] <= hi) for a, lo, hi in attrs])
    msg, exc = cx.raises(lambda: mido.MetaMessage(type, time=delta, **vals), *REJECT, label='ctor')
    if exc is not None:
        cx.check(cx.Not(ok), 'rejected=>undocumented')
        return
    cx.check(ok, 'accepted=>documented')
    b = msg.bytes()
    cx.observe('bytes', b)
    p = split_meta(cx, b, tb)
    if p is None:
        cx.check(False, 'frame')
        return
    if type == 'sequence_number':
        lay = len(p) == 2 and cx.eq(256 * p[0] + p[1], vals['number'])
    elif type == 'channel_prefix':
        lay = len(p) == 1 and cx.eq(p[0], vals['channel'])
    elif type == 'midi_port':
        lay = len(p) == 1 and cx.eq(p[0], vals['port'])
    elif type == 'set_tempo':
        lay = len(p) == 3 and cx.eq(65536 * p[0] + 256 * p[1] + p[2], vals['tempo'])
    elif type == 'end_of_track':
        lay = len(p) == 0
    elif type == 'smpte_offset':
        lay = len(p) == 5 and cx.And(cx.eq(p[0], 32 * rr + vals['hours']), cx.eq(p[1], vals['minutes']),
                                     cx.eq(p[2], vals['seconds']), cx.eq(p[3], vals['frames']),
                                     cx.eq(p[4], vals['sub_frames']))
    else:
        lay = len(p) == 4 and cx.And(cx.eq(p[0], vals['numerator']), cx.eq(p[1], 2),
                                     cx.eq(p[2], vals['clocks_per_click']),
                                     cx.eq(p[3], vals['notated_32nd_notes_per_beat']))
    cx.check(lay, 'layout')
    _decode_both(cx, mido, msg, b, delta)


POW2 = [2 ** k for k in range(256)]


@harness(labels=['ctor', 'power-of-two-accepted', 'non-power-rejected', 'exponent-byte', 'frame',
                 'from_bytes-raises-nothing', 'from_bytes-roundtrip', 'read-raises-nothing', 'read-roundtrip'])
def denominator(cx, lo_bits, hi_bits):
    """time_signature denominator symbolic over 320-bit integers whose bit
    length lies in [lo_bits, hi_bits] (and a band below 1 / above 2**255)."""
    import mido
    lo = -(2 ** 20) if lo_bits == 0 else 2 ** (lo_bits - 1)
    hi = 2 ** hi_bits - 1 if hi_bits <= 256 else 2 ** 256 + 2 ** 20
    d = cx.int('den', lo, hi)
    is_pow2 = cx.Or(*[d == p for p in POW2 if lo <= p <= hi]) if any(lo <= p <= hi for p in POW2) else False
    msg, exc = cx.raises(lambda: mido.MetaMessage('time_signature', denominator=d), *REJECT, label='ctor')
    if exc is not None:
        cx.check(cx.Not(is_pow2), 'power-of-two-accepted')
        return
    cx.check(is_pow2, 'non-power-rejected')
    b = msg.bytes()
    p = split_meta(cx, b, 0x58)
    if p is None or len(p) != 4:
        cx.check(False, 'frame')
        return
    cx.observe('exponent', p[1])
    # the exponent byte k satisfies 2**k == denominator
    cx.check(cx.Or(*[cx.And(p[1] == k, d == POW2[k]) for k in range(256) if lo <= POW2[k] <= hi]), 'exponent-byte')
    _decode_both(cx, mido, msg, b, 0)


@harness(labels=['all-30-keys', 'layout', 'frame', 'from_bytes-raises-nothing', 'from_bytes-roundtrip',
                 'read-raises-nothing', 'read-roundtrip'])
def key_signature(cx):
    import mido
    cx.check(len(KEY_NAMES) == 30, 'all-30-keys')
    k = KEY_NAMES[cx.choice('key', 30)]
    delta = cx.int('delta', 0, 2 ** 28 - 1)
    msg, exc = cx.raises(lambda: mido.MetaMessage('key_signature', key=k, time=delta), label='all-30-keys')
    if exc is not None:
        return
    b = msg.bytes()
    cx.observe('bytes', b)
    p = split_meta(cx, b, 0x59)
    sf, mi = KEYS[k]
    cx.check(p is not None and len(p) == 2 and cx.eq(p[0], sf % 256) and cx.eq(p[1], mi), 'layout')
    _decode_both(cx, mido, msg, b, delta)


@harness(labels=['bad-key-rejected'])
def key_signature_invalid(cx):
    import mido
    from mido.midifiles.meta import KeySignatureError
    k = BAD_KEYS[cx.choice('bad', len(BAD_KEYS))]
    _, exc = cx.raises(lambda: mido.MetaMessage('key_signature', key=k), *REJECT, label='bad-key-rejected')
    cx.check(exc is not None, 'bad-key-rejected')


@harness(labels=['bad-key-bytes-rejected'])
def key_signature_payload(cx):
    """Decoding side: payload bytes that name no key are refused, never mis-decoded."""
    import mido
    from mido.midifiles.meta import KeySignatureError
    sf = cx.int('sf', 0, 255)
    mi = cx.int('mi', 0, 3)
    signed = cx.ite(sf >= 128, sf - 256, sf)
    named = cx.And(-7 <= signed, signed <= 7, mi <= 1)
    m, exc = cx.raises(lambda: mido.MetaMessage.from_bytes([0xFF, 0x59, 2, sf, mi]),
                       KeySignatureError, ValueError, label='bad-key-bytes-rejected')
    if exc is not None:
        cx.check(cx.Not(named), 'bad-key-bytes-rejected')
    else:
        cx.check(named, 'bad-key-bytes-rejected')
        back = m.bytes()
        cx.check(cx.eq(back, [0xFF, 0x59, 2, sf, mi]), 'bad-key-bytes-rejected')


TEXTS = ['', 'a', 'Hello, World!', 'é\xff\x00\x7f', ' \t\n', '(1,2)=x', 'name\x00', '\x00', ' padded ', 'line\n', '\x00\x00x', 'x' * 127, 'y' * 128, 'z' * 129,
         'q' * 16383, 'r' * 16384, 'ü' * 300]


@harness(labels=['ctor', 'frame', 'payload=latin1', 'from_bytes-raises-nothing', 'from_bytes-roundtrip',
                 'read-raises-nothing', 'read-roundtrip', 'non-str-rejected'])
def text_meta(cx, type):
    """Text-carrying types over a menu of contents and the boundary lengths."""
    import mido
    tb, attr = TEXT_TYPES[type]
    text = TEXTS[cx.choice('text', len(TEXTS))]
    delta = cx.int('delta', 0, 2 ** 28 - 1)
    msg, exc = cx.raises(lambda: mido.MetaMessage(type, time=delta, **{attr: text}), label='ctor')
    if exc is not None:
        return
    b = msg.bytes()
    p = split_meta(cx, b, tb)
    cx.check(p is not None and list(p) == list(text.encode('latin1')), 'payload=latin1')
    _decode_both(cx, mido, msg, list(b[:2]) + [int(x) for x in b[2:]], delta, concrete_bytes=True)
    # the same text under another charset afterwards (text is always encoded in the charset in force)
    from mido.midifiles import meta as _meta
    if hasattr(_meta, 'meta_charset') and text and all(ord(c) < 0x100 for c in text) and len(text) < 200:
        for cs in ('utf-8', 'utf-16'):
            with _meta.meta_charset(cs):
                b2 = msg.bytes()
                p2 = split_meta(cx, b2, tb)
                cx.check(p2 is not None and [int(x) for x in p2] == list(text.encode(cs)), 'payload=latin1')
        b3 = msg.bytes()
        cx.check([int(x) for x in b3] == [int(x) for x in b], 'payload=latin1')
    bad = [1, None, b'abc', ['a'], 1.5][cx.choice('bad', 5)]
    _, exc = cx.raises(lambda: mido.MetaMessage(type, **{attr: bad}), *REJECT, label='non-str-rejected')
    cx.check(exc is not None, 'non-str-rejected')


@harness(labels=['rejected-iff-negative', 'minimal-wellformed', 'value', 'read_variable_int',
                 'decode_variable_int', 'non-int-rejected'])
def vlq(cx):
    from mido.midifiles import meta, midifiles as mf
    n = cx.int('n', -WIDE, WIDE)
    bs, exc = cx.raises(lambda: meta.encode_variable_int(n), ValueError, label='rejected-iff-negative')
    if exc is not None:
        cx.check(n < 0, 'rejected-iff-negative')
        bad = [1.5, '1', None][cx.choice('bad', 3)]
        _, e2 = cx.raises(lambda: meta.encode_variable_int(bad), ValueError, TypeError, label='non-int-rejected')
        cx.check(e2 is not None, 'non-int-rejected')
        return
    cx.check(n >= 0, 'rejected-iff-negative')
    cx.observe('bytes', bs)
    ok, val = vlq_value(cx, bs)
    cx.check(ok, 'minimal-wellformed')
    cx.check(cx.eq(val, n), 'value')
    f = stubs.SymFile(list(bs) + [0x55]) if cx.symbolic else _bio(list(bs) + [0x55])
    r = mf.read_variable_int(f)
    cx.check(cx.eq(r, n) and f.tell() == len(bs), 'read_variable_int')
    cx.check(cx.eq(meta.decode_variable_int(list(bs)), n), 'decode_variable_int')


@harness(labels=['frame-found', 'data-length', 'data-offset', 'type-passed', 'wrong-length-rejected'])
def length_framing(cx):
    """MetaMessage.from_bytes on FF <type> vlq(n) <n payload bytes> with the
    payload length n SYMBOLIC (0..2^21): the decoder must find the payload
    right after the length, for every n.  The path is cut where from_bytes
    hands (type, data) to build_meta_message."""
    import mido
    from mido.midifiles import meta
    n = cx.int('n', 0, 2 ** 21)
    t = cx.int('type', 0, 127)
    extra = cx.int('extra', -1, 1)            # -1: one byte missing, +1: one too many
    vl = meta.encode_variable_int(n)
    head = [0xFF, t] + list(vl)
    total = n + extra
    if not (total >= 0):
        cx.assume(False)
    seq = cx.symlist(head, total, 0x41)
    seen = []
    real = meta.build_meta_message

    def recorder(meta_type, data, delta=0):
        seen.append((meta_type, data))
        return 'built'
    meta.build_meta_message = recorder
    if cx.symbolic:
        meta.len = stubs.sym_len
    try:
        r, exc = cx.raises(lambda: mido.MetaMessage.from_bytes(seq), ValueError, label='frame-found')
    finally:
        meta.build_meta_message = real
        if cx.symbolic:
            del meta.len
    cx.observe('outcome', 'built' if exc is None else 'ValueError')
    if not decide_zero(cx, extra):
        cx.check(exc is not None, 'wrong-length-rejected')
        return
    cx.check(exc is None and len(seen) == 1, 'frame-found')
    if exc is None and seen:
        mt, data = seen[0]
        cx.check(cx.eq(mt, t), 'type-passed')
        if cx.symbolic:
            cx.check(cx.eq(data.sym_len(), n), 'data-length')
            cx.check(data.start == len(head), 'data-offset')
        else:
            cx.check(len(data) == n, 'data-length')
            cx.check(all(x == 0x41 for x in data[:3]) and (n == 0 or data[-1] == 0x41), 'data-offset')


def decide_zero(cx, x):
    return bool(x == 0)


@harness(labels=['frame', 'from_bytes-raises-nothing', 'from_bytes-roundtrip', 'read-raises-nothing',
                 'read-roundtrip', 'is-unknown'])
def unknown_meta(cx, L):
    """UnknownMetaMessage with an unassigned type byte and byte data."""
    import mido
    tb = cx.int('type_byte', 0, 127)
    cx.assume(cx.And(*[tb != a for a in ASSIGNED]))
    data = [cx.int('d%d' % i, 0, 255) for i in range(L)]
    delta = cx.int('delta', 0, 2 ** 28 - 1)
    msg = mido.UnknownMetaMessage(tb, data=data, time=delta)
    b = msg.bytes()
    cx.observe('bytes', b)
    p = split_meta(cx, b, tb)
    cx.check(p is not None and cx.eq(list(p), data), 'frame')
    cx.check(isinstance(mido.MetaMessage.from_bytes(list(b)), mido.UnknownMetaMessage), 'is-unknown')
    _decode_both(cx, mido, msg, b, delta)


@harness(labels=['frame', 'payload=data', 'from_bytes-raises-nothing', 'from_bytes-roundtrip',
                 'read-raises-nothing', 'read-roundtrip', 'ctor', 'accepted=>bytes'])
def sequencer_specific(cx, L):
    import mido
    container = ['list', 'tuple', 'default'][cx.choice('container', 3 if L == 0 else 2)]
    items = [cx.int('d%d' % i, -WIDE, WIDE) for i in range(L)]
    ok = cx.And(*[cx.And(0 <= x, x <= 255) for x in items])
    delta = cx.int('delta', 0, 2 ** 28 - 1)
    if container == 'default':
        kw = {}
    else:
        kw = {'data': tuple(items) if container == 'tuple' else list(items)}
    msg, exc = cx.raises(lambda: mido.MetaMessage('sequencer_specific', time=delta, **kw), *REJECT, label='ctor')
    if exc is not None:
        cx.check(cx.Not(ok), 'ctor')
        return
    cx.check(ok, 'accepted=>bytes')
    if not decide_all(cx, ok):
        return
    b = msg.bytes()
    p = split_meta(cx, b, 0x7F)
    cx.check(p is not None and cx.eq(list(p), items if kw else []), 'payload=data')
    _decode_both(cx, mido, msg, b, delta)


def decide_all(cx, f):
    return f is True or (f is not False and bool(f))


@harness(labels=['unknown-type-byte-validated'])
def unknown_meta_domain(cx):
    """UnknownMetaMessage performs no validation (recorded finding)."""
    import mido
    tb = cx.int('type_byte', -WIDE, WIDE)
    msg, exc = cx.raises(lambda: mido.UnknownMetaMessage(tb, data=[1]), *REJECT, label='unknown-type-byte-validated')
    if exc is None:
        cx.check(cx.And(0 <= tb, tb <= 255), 'unknown-type-byte-validated')


BOUNDS = {
    'quick': 'every integer attribute of every known meta type symbolic in [-2^40, 2^40] (all attributes at once), 4 frame '
             'rates, delta symbolic in [0, 2^28); time_signature denominator symbolic over 320-bit integers from -2^20 to '
             '2^256+2^20 (bit-length bands); all 30 key names + 12 invalid, all (sf 0..255, mi 0..3) payloads on the decoding '
             'side; VLQ over [-2^40, 2^40]; payload length of from_bytes symbolic in [0, 2^21] (+-1 byte); 8 text types x '
             '17 texts (incl. trailing NUL / blanks) and lengths 0,1,127,128,129,16383,16384; unknown meta: any unassigned type byte < 128, data '
             'length 0..3 symbolic; sequencer_specific data length 0..3 wide symbolic',
    'thorough': 'as quick; unknown/sequencer data up to length 16; denominator in 32 finer bit-length bands',
}
OUTSIDE = 'text not encodable in the active charset (C17); text contents beyond the menu; payload contents in the ' \
          'length-framing harness are a single fill value (framing does not read them); VLQ above 2^40'
ASSUMPTIONS = [
    'documented domains: docs/meta_message_types.rst (tables in this file)',
    'SMF 1.0 layout of each meta event written in this file with + and *',
]


def JOBS(tier):
    jobs = []
    for t in INT_TYPES:
        jobs.append((meta_int, {'type': t}, {'cost': 5}))
    bands = [(0, 8), (9, 64), (65, 128), (129, 200), (201, 250), (251, 256), (257, 300)]
    if tier != 'quick':
        bands = [(0, 0)] + [(8 * i + 1, 8 * i + 8) for i in range(32)] + [(257, 300)]
    for lo, hi in bands:
        jobs.append((denominator, {'lo_bits': lo, 'hi_bits': hi}, {'width': 320, 'cost': 50}))
    jobs.append((key_signature, {}, {}))
    jobs.append((key_signature_invalid, {}, {}))
    jobs.append((key_signature_payload, {}, {'cost': 100}))
    for t in TEXT_TYPES:
        jobs.append((text_meta, {'type': t}, {'cost': 3}))
    jobs.append((vlq, {}, {}))
    jobs.append((length_framing, {}, {}))
    top = 3 if tier == 'quick' else 16
    for L in range(0, top + 1):
        jobs.append((unknown_meta, {'L': L}, {}))
        jobs.append((sequencer_specific, {'L': L}, {}))
    jobs.append((unknown_meta_domain, {}, {}))
    return jobs
