"""C15 - Copy, freeze and thaw have value semantics."""
from pysym.cx import harness

from . import smf
from .C09 import INT_TYPES, KEY_NAMES, TEXT_TYPES
from .common import MSG, RANGE, REALTIME

WIDE = 2 ** 40
KINDS = smf.ALL_KINDS + REALTIME
ILL_OVERRIDES = ['soon', None, 1.5, [1], float('inf')]      # non-integer override values (a menu)


def _int_attrs(m):
    """name -> documented (lo, hi) for the integer attributes of a message."""
    if type(m).__name__ in ('Message', 'FrozenMessage'):
        return {a: RANGE[a] for a in MSG[m.type][2] if a != 'data'}
    if m.type in INT_TYPES:
        return {a: ((lo, 31) if a == 'hours' else (lo, hi)) for a, lo, hi in INT_TYPES[m.type][1]}
    return {}


def _rebuild(mido, m, merged):
    """A freshly constructed message of m's class from attribute values."""
    name = type(m).__name__
    kw = {k: v for k, v in merged.items() if k != 'type'}
    if name == 'Message':
        return mido.Message(m.type, **kw)
    if name == 'UnknownMetaMessage':
        return mido.UnknownMetaMessage(kw.pop('type_byte'), **kw)
    return mido.MetaMessage(m.type, **kw)


def _snapshot_same(m, snap):
    v = vars(m)
    return set(v) == set(snap) and all(v[k] is snap[k] for k in snap)


@harness(labels=['copy-class-equal', 'freeze-class-equal', 'freeze-idempotent', 'thaw-class-equal',
                 'thaw-of-unfrozen-copies', 'None->None', 'assign-on-copy-leaves-original',
                 'assign-on-original-leaves-copy', 'frozen-rejects-set', 'frozen-rejects-del', 'frozen-unchanged'])
def value_sem(cx, kind):
    import mido
    from mido.frozen import freeze_message, is_frozen, thaw_message
    m = smf.make(cx, mido, kind, 'm_', cx.int('time', 0, smf.D28))
    cls = type(m)
    c = m.copy()
    cx.check(type(c) is cls and c is not m and c == m, 'copy-class-equal')
    f = freeze_message(m)
    cx.check(is_frozen(f) and isinstance(f, cls) and type(f).__name__ == 'Frozen' + cls.__name__ and f == m,
             'freeze-class-equal')
    cx.check(freeze_message(f) is f, 'freeze-idempotent')
    t = thaw_message(f)
    cx.check(type(t) is cls and not is_frozen(t) and t == m and t is not f and t is not m, 'thaw-class-equal')
    u = thaw_message(m)
    cx.check(type(u) is cls and u is not m and u == m, 'thaw-of-unfrozen-copies')
    cx.check(freeze_message(None) is None and thaw_message(None) is None, 'None->None')
    cx.observe('frozen', vars(f))
    # ---- assignments on one never reach the other
    ints = _int_attrs(m)
    names = sorted(ints) + ['time']
    a = names[cx.choice('attr', len(names))]
    lo, hi = ints.get(a, (0, smf.D28))
    v = cx.int('v', lo, hi)
    for target, others, label in ((c, (m, f, t), 'assign-on-copy-leaves-original'),
                                  (m, (t, u), 'assign-on-original-leaves-copy')):
        snaps = [dict(vars(o)) for o in others]
        setattr(target, a, v)
        cx.check(vars(target)[a] is v and all(_snapshot_same(o, s) for o, s in zip(others, snaps)), label)
    # ---- frozen messages reject every mutation
    snap = dict(vars(f))
    fnames = sorted(snap) + ['bogus']
    fa = fnames[cx.choice('fattr', len(fnames))]
    _, exc = cx.raises(lambda: setattr(f, fa, v), Exception, label='frozen-rejects-set')
    cx.check(exc is not None, 'frozen-rejects-set')
    _, exc = cx.raises(lambda: delattr(f, fa), Exception, label='frozen-rejects-del')
    cx.check(exc is not None, 'frozen-rejects-del')
    cx.check(_snapshot_same(f, snap), 'frozen-unchanged')


@harness(labels=['override=fresh-construction', 'same-exception-class', 'original-untouched', 'frozen-copy-class'])
def copy_overrides(cx, kind, n=1):
    """copy(**overrides) with n integer attributes symbolic over a wide range
    (valid and invalid): equals a freshly constructed message, or raises the
    same exception class the constructor raises."""
    import mido
    from mido.frozen import freeze_message
    m = smf.make(cx, mido, kind, 'm_', cx.int('time', 0, smf.D28))
    ints = _int_attrs(m)
    names = sorted(ints) + ['time']
    if type(m).__name__ == 'UnknownMetaMessage':
        names = ['type_byte', 'time']
    over = {}
    for i in range(n):
        cand = [x for x in names if x not in over]
        if not cand:
            break
        a = cand[cx.choice('attr%d' % i, len(cand))]
        k = cx.choice('kind%d' % i, 1 + len(ILL_OVERRIDES))
        over[a] = cx.int('v%d' % i, -WIDE, WIDE) if k == 0 else ILL_OVERRIDES[k - 1]
    snap = dict(vars(m))
    merged = dict(vars(m))
    merged.update(over)
    src = freeze_message(m) if cx.bool('from_frozen') else m
    r1, e1 = cx.raises(lambda: src.copy(**over), Exception, label='same-exception-class')
    r2, e2 = cx.raises(lambda: _rebuild(mido, m, merged), Exception, label='same-exception-class')
    cx.check((e1 is None) == (e2 is None) and (e1 is None or type(e1) is type(e2)), 'same-exception-class')
    if e1 is None and e2 is None:
        cx.observe('copy', vars(r1))
        cx.check(r1 == r2 and isinstance(r1, type(m)), 'override=fresh-construction')
        cx.check(type(r1) is type(src), 'frozen-copy-class')
    cx.check(_snapshot_same(m, snap), 'original-untouched')


def _menu_message(cx, mido, kind):
    """Concrete message with every attribute from {min, default, max}."""
    m = smf.make(_Menu(cx), mido, kind, 'm_', [0, 1, smf.D28, 0.3][cx.choice('time', 4)])
    return m


class _Menu:
    """cx look-alike whose int() picks one of {lo, mid, hi} by a certified choice."""
    symbolic = False

    def __init__(self, cx):
        self.cx = cx

    def int(self, name, lo, hi):
        vals = sorted({lo, (lo + hi) // 2, hi})
        return vals[self.cx.choice(name, len(vals))]

    def choice(self, name, n):
        return self.cx.choice(name, n)

    def assume(self, c):
        self.cx.assume(c)

    def assume_fn(self, fn):
        self.cx.assume(fn())

    def __getattr__(self, k):
        return getattr(self.cx, k)


@harness(labels=['hashable', 'equal=>equal-hash', 'dict-key', 'set-member', 'different-not-equal',
                 'hashing-leaves-no-trace'])
def frozen_hash(cx, kind):
    """Equal frozen messages hash equal and find each other as dict keys
    (attribute values from the {min, mid, max} menu: hashing is C-level)."""
    import mido
    from mido.frozen import freeze_message, thaw_message
    m = _menu_message(cx, mido, kind)
    f1 = freeze_message(m)
    f2 = freeze_message(thaw_message(freeze_message(m.copy())))
    h, exc = cx.raises(lambda: (hash(f1), hash(f2)), label='hashable')
    if exc is not None:
        return
    cx.check(f1 == f2 and f1 is not f2 and h[0] == h[1], 'equal=>equal-hash')
    cx.check({f1: 'x'}.get(f2) == 'x' and {f2: 'y'}[f1] == 'y', 'dict-key')
    cx.check(f2 in {f1} and len({f1, f2}) == 1, 'set-member')
    # equal messages that were BUILT DIFFERENTLY (decoded from bytes / text / a dict in another key order)
    others = []
    if type(m) is mido.Message:
        others.append(mido.Message.from_bytes(m.bytes(), time=m.time))
        others.append(mido.Message.from_str(str(m)))
        d = m.dict()
        others.append(mido.Message.from_dict(dict(reversed(list(d.items())))))
        others.append(mido.parse_all(m.bytes())[0].copy(time=m.time))
    elif kind not in ('sequencer_specific_default',):
        x = mido.MetaMessage.from_bytes(m.bytes())
        x.time = m.time
        others.append(x)
    for o in others:
        fo = freeze_message(o)
        if fo == f1:
            cx.check(hash(fo) == h[0] and {f1: 1}.get(fo) == 1 and fo in {f1}, 'equal=>equal-hash')
    # a time that differs only in the last digits (seconds come out of float arithmetic): if the library calls
    # the two messages equal, their hashes must agree as well
    import math
    t0 = float(m.time)
    for t1 in (math.nextafter(t0, math.inf), t0 + 0.1 + 0.2 - 0.3, t0 * (1 + 1e-10) + 1e-13, t0 - 1e-13):
        near = freeze_message(m.copy(time=t1))
        for base in (f1, freeze_message(m.copy(time=t0))):
            if near == base or base == near:
                cx.check(hash(near) == hash(base) and {base: 1}.get(near) == 1 and near in {base},
                         'equal=>equal-hash')
    unhashed = freeze_message(m.copy())
    cx.check(f1 == unhashed and unhashed == f1 and set(vars(f1)) == set(vars(unhashed)), 'hashing-leaves-no-trace')
    t = thaw_message(f1)
    cx.check(t == m and set(vars(t)) == set(vars(m)), 'hashing-leaves-no-trace')
    _, exc = cx.raises(lambda: (f1.copy(), f1.copy(time=m.time + 2), thaw_message(f1).copy(time=3)),
                       label='hashing-leaves-no-trace')
    other = freeze_message(m.copy(time=m.time + 1))
    cx.check(not (other == f1) and other not in {f1: 1}, 'different-not-equal')


BOUNDS = {
    'quick': 'each of 33 message kinds (all 18 Message types incl. sysex L=0/1/2, 11 known meta kinds, unknown meta with 0/2 data bytes) with every '
             'attribute symbolic in its documented range: copy/freeze/thaw class and equality, None->None, one symbolic '
             'assignment on the copy and on the original (attribute chosen symbolically), every set/del on the frozen twin; '
             'copy(**overrides) with one attribute symbolic in [-2^40, 2^40] or from a 5-value ill-typed menu, from the plain and from the frozen '
             'message, against a fresh construction; hashing over the {min, mid, max} menu of every attribute (time also 0.3 and four float neighbours of each time), incl. equal messages built along different paths (decoded from bytes, text, a reordered dict)',
    'thorough': 'overrides of two attributes at once',
}
OUTSIDE = 'override values beyond integers and the ill-typed menu; hashing beyond the ' \
          'attribute menu (tuple hashing is C-level); smpte hours >= 32'
ASSUMPTIONS = ['"a freshly constructed message with those values" = cls(type, **{attributes of the original updated with the overrides})']


def JOBS(tier):
    jobs = []
    for k in KINDS:
        jobs.append((value_sem, {'kind': k}, {'cost': 5}))
        jobs.append((copy_overrides, {'kind': k, 'n': 1}, {'cost': 5}))
        if tier != 'quick':
            jobs.append((copy_overrides, {'kind': k, 'n': 2}, {'cost': 50}))
        jobs.append((frozen_hash, {'kind': k}, {'cost': 5}))
    jobs.append((frozen_hash, {'kind': 'sequencer_specific_default'}, {}))
    return jobs
