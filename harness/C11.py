"""C11 - Port lifecycle: idempotent close, drain then stop, blocking calls terminate."""
from pysym.cx import harness

OPS = ['send', 'receive', 'poll', 'next', 'iter_pending', 'close', 'with', 'reset', 'panic', 'arrive']
SLEEP_BUDGET = 4


class Hang(BaseException):
    """The call under test went to sleep more often than the budget allows:
    it is waiting for something that will never come."""


class FakeRandom:
    """mido.ports.random double: shuffle() puts the list in an order chosen by a certified fork (every
    order is explored), instead of a pseudo-random one that would differ between re-executions."""

    def __init__(self, cx):
        self.cx = cx
        self.n = 0

    def _order(self, n):
        import itertools
        if self.cx is None or n < 2:
            return list(range(n))
        perms = list(itertools.permutations(range(n)))
        k = self.cx.choice('shuffle%d' % self.n, len(perms)) if self.n < 2 else 0   # (first two polls: any order)
        self.n += 1
        return list(perms[k])

    def shuffle(self, lst):
        lst[:] = [lst[i] for i in self._order(len(lst))]

    def sample(self, population, k, **kw):
        population = list(population)
        return [population[i] for i in self._order(len(population))][:k]

    def choice(self, seq):
        seq = list(seq)
        return seq[self._order(len(seq))[0]]

    def __getattr__(self, name):
        # any other source of randomness is not modelled: the verdict must not rest on it
        from pysym.core import Unmodelled
        raise Unmodelled('random.%s is not modelled by the harness double' % name)


class Env:
    """Fake mido.ports.sleep with a budget (and the shuffle double), installed for one harness run."""

    def __init__(self, budget=SLEEP_BUDGET, cx=None):
        self.sleeps = 0
        self.total = 0
        self.budget = budget
        self.cx = cx

    def sleep(self):
        self.sleeps += 1
        self.total += 1
        if self.sleeps > self.budget:
            raise Hang()

    def __enter__(self):
        import mido.ports as ports
        self.ports = ports
        self.old = (ports.sleep, ports.random)
        ports.sleep = self.sleep
        ports.random = FakeRandom(self.cx)
        return self

    def __exit__(self, *a):
        self.ports.sleep, self.ports.random = self.old
        return False


def make_device(mido, log, incoming, close_after, autoreset=False, name='dev', deliver_on_close=False):
    """Device double: a lock-protected BaseIOPort whose _receive() takes in at
    most one message per poll from `incoming`, and which closes itself (like a
    socket port at EOF) at the first poll after `close_after` deliveries."""
    from mido.ports import BaseIOPort

    class Device(BaseIOPort):
        def _open(self, **kwargs):
            self.delivered = 0
            self.taken_in = []
            self.incoming = incoming
            self.close_after = close_after
            log.append((name, 'open'))

        def _close(self):
            log.append((name, 'close'))

        def _send(self, msg):
            log.append((name, 'send', msg))

        def _receive(self, block=True):
            log.append((name, 'poll', block))
            if close_after is not None and self.delivered >= close_after:
                if deliver_on_close and incoming:
                    # like a socket port that reads the last bytes and the end-of-file in one poll
                    m = incoming.pop(0)
                    self.delivered += 1
                    self.taken_in.append(m)
                    self._messages.append(m)
                self.close()
                return None
            if incoming:
                m = incoming.pop(0)
                self.delivered += 1
                self.taken_in.append(m)
                self._messages.append(m)
            return None
    return Device(name, autoreset=autoreset)


def build(cx, mido, kind, log, d, close_after, autoreset, doc=False):
    """-> (port under test, list that receives what the port takes in, feeder)"""
    from mido import ports
    msgs = [mido.Message('note_on', note=10 + i) for i in range(d)]
    if kind == 'device':
        inc = list(msgs)
        p = make_device(mido, log, inc, close_after, autoreset, deliver_on_close=doc)
        return p, [p], inc
    if kind == 'echo':
        class LoggedEcho(ports.EchoPort):
            taken_in = []

            def _send(self, message):
                self.taken_in.append(message)
                ports.EchoPort._send(self, message)
        p = LoggedEcho()
        p.taken_in = []
        return p, [], None
    if kind == 'ioport':
        inc = list(msgs)
        i = make_device(mido, log, inc, close_after, False, 'in', deliver_on_close=doc)
        o = make_device(mido, log, [], None, autoreset, 'out')
        p = ports.IOPort(i, o)
        return p, [i, o], inc
    if kind == 'multi':
        ia, ib = list(msgs[0::2]), list(msgs[1::2])
        a = make_device(mido, log, ia, close_after, False, 'a', deliver_on_close=doc)
        b = make_device(mido, log, ib, None, False, 'b')
        p = ports.MultiPort([a, b])
        return p, [a, b], ib
    raise AssertionError(kind)


@harness(labels=['no-unexpected-exception', 'close-releases-once', 'reset-once-before-close', 'send-after-close-ValueError',
                 'send-delivers-a-copy', 'fifo-no-loss-no-duplicate', 'poll-never-sleeps', 'blocking-receive-returns-at-once',
                 'closed-and-drained', 'iteration-ends-quietly', 'blocks-only-when-idle-and-open', 'final-drain'])
def history(cx, kind, n, d, close_after, autoreset, deliver_on_close=False):
    """n operations chosen symbolically on one port of the given kind, with d
    messages the device will deliver and a device that closes itself after
    close_after deliveries."""
    import mido
    log = []
    with Env(cx=cx if kind == 'multi' else None) as env:
        port, devs, incoming = build(cx, mido, kind, log, d, close_after, autoreset, deliver_on_close)
        handed = []            # everything handed out by any retrieval call, in order
        sent = []
        it = None
        ever_closed_by_us = False
        explicit_resets = 0
        for step in range(n):
            op = OPS[cx.choice('op%d' % step, len(OPS))]
            env.sleeps = 0
            closed_before = port.closed
            pending_before = len(port._messages)
            try:
                if op == 'send':
                    m = mido.Message('control_change', control=step, value=7)
                    if closed_before:
                        _, e = cx.raises(lambda: port.send(m), ValueError, label='send-after-close-ValueError')
                        cx.check(e is not None, 'send-after-close-ValueError')
                    else:
                        _, e = cx.raises(lambda: port.send(m), OSError, label='no-unexpected-exception')
                        sent.append(m)
                elif op == 'receive':
                    r, e = cx.raises(lambda: port.receive(), ValueError, OSError, label='no-unexpected-exception')
                    if e is None:
                        cx.check(r is not None, 'fifo-no-loss-no-duplicate')
                        handed.append(r)
                        if pending_before:
                            cx.check(env.sleeps == 0, 'blocking-receive-returns-at-once')
                    else:
                        cx.check(port.closed and pending_before == 0, 'closed-and-drained')
                elif op == 'poll':
                    r, e = cx.raises(lambda: port.poll(), label='no-unexpected-exception')
                    cx.check(env.sleeps == 0, 'poll-never-sleeps')
                    if r is not None:
                        handed.append(r)
                    elif e is None:
                        cx.check(pending_before == 0, 'fifo-no-loss-no-duplicate')
                elif op == 'next':
                    if it is None:
                        it = iter(port)
                    try:
                        r = next(it)
                        handed.append(r)
                        if pending_before:
                            cx.check(env.sleeps == 0, 'blocking-receive-returns-at-once')
                    except StopIteration:
                        cx.check(pending_before == 0 and (port.closed or kind == 'echo'), 'iteration-ends-quietly')
                        it = None
                    except Hang:
                        it = None        # the generator is finished by the exception
                        raise
                    except Exception as ex:    # noqa: BLE001
                        it = None
                        cx.fail('iteration-ends-quietly:%s' % type(ex).__name__)
                elif op == 'iter_pending':
                    got, e = cx.raises(lambda: list(port.iter_pending()), label='no-unexpected-exception')
                    cx.check(env.sleeps == 0, 'poll-never-sleeps')
                    if got:
                        handed.extend(got)
                elif op == 'close':
                    _, e = cx.raises(lambda: port.close(), label='no-unexpected-exception')
                    cx.check(port.closed, 'close-releases-once')
                    ever_closed_by_us = True
                elif op == 'with':
                    with port as q:
                        cx.check(q is port, 'no-unexpected-exception')
                    cx.check(port.closed, 'close-releases-once')
                    ever_closed_by_us = True
                elif op == 'reset':
                    before = len(log)
                    _, e = cx.raises(lambda: port.reset(), OSError, label='no-unexpected-exception')
                    if not closed_before:
                        explicit_resets += 1
                    if closed_before:
                        cx.check(len(log) == before, 'send-after-close-ValueError')
                elif op == 'panic':
                    before = len(log)
                    _, e = cx.raises(lambda: port.panic(), OSError, label='no-unexpected-exception')
                    if closed_before:
                        cx.check(len(log) == before, 'send-after-close-ValueError')
                elif op == 'arrive':
                    # a message reaches the device between two calls
                    if incoming is not None:
                        incoming.append(mido.Message('note_on', note=100 + step))
            except Hang:
                # only a blocking call on an open port with nothing deliverable may wait
                can_come = any(dev.incoming and not dev.closed and
                               (deliver_on_close or
                                not (dev.close_after is not None and dev.delivered >= dev.close_after))
                               for dev in devs if hasattr(dev, 'incoming') and dev.name != 'out')
                cx.check(op in ('receive', 'next') and not port.closed and not can_come and
                         len(port._messages) == 0, 'blocks-only-when-idle-and-open')
        # ---- final accounting
        for dev in devs:
            closes = [x for x in log if x[0] == dev.name and x[1] == 'close']
            cx.check(len(closes) <= 1, 'close-releases-once')
            if ever_closed_by_us and kind != 'multi':      # (a MultiPort does not own its ports)
                cx.check(len(closes) == 1 and dev.closed, 'close-releases-once')
        if kind in ('device', 'ioport'):
            out = devs[-1]
            want = list(mido.ports.reset_messages())
            sends = [x[2] for x in log if x[0] == out.name and x[1] == 'send']
            n_resets = sum(1 for i in range(len(sends) - len(want) + 1) if sends[i:i + len(want)] == want)
            closes = [i for i, x in enumerate(log) if x[0] == out.name and x[1] == 'close']
            cx.check(n_resets == explicit_resets + (1 if (autoreset and closes) else 0), 'reset-once-before-close')
            if autoreset and closes:
                before = [x for x in log[:closes[0]] if x[0] == out.name][-len(want):]
                cx.check([x[2] for x in before if x[1] == 'send'] == want, 'reset-once-before-close')
            else:
                cx.reach('reset-once-before-close')
        # what was sent reached the device as equal copies, in order
        if kind in ('device', 'ioport'):
            out = devs[-1]
            got = [x[2] for x in log if x[0] == out.name and x[1] == 'send' and x[2].type == 'control_change'
                   and x[2].value == 7]
            cx.check(len(got) == len(sent) and all(a == b and a is not b for a, b in zip(got, sent)),
                     'send-delivers-a-copy')
        # drain: after a close everything already taken in is still handed out, then iteration stops
        if port.closed:
            env.sleeps = 0
            rest, e = cx.raises(lambda: list(port), label='final-drain')
            if e is None:
                handed.extend(rest)
            cx.check(e is None and len(port._messages) == 0, 'final-drain')
            cx.check(port.poll() is None, 'closed-and-drained')
        if kind == 'echo':
            taken = port.taken_in
            cx.check(len(handed) <= len(taken) and all(a is b for a, b in zip(handed, taken)),
                     'fifo-no-loss-no-duplicate')
        else:
            taken = [m for dev in devs for m in getattr(dev, 'taken_in', [])]
            if kind != 'multi':
                cx.check(handed == taken[:len(handed)] and all(a is b for a, b in zip(handed, taken)),
                         'fifo-no-loss-no-duplicate')
            else:
                ids = [id(m) for m in handed]
                cx.check(len(set(ids)) == len(ids) and set(ids) <= {id(m) for m in taken},
                         'fifo-no-loss-no-duplicate')
            if port.closed:
                cx.check(len(handed) == len(taken), 'fifo-no-loss-no-duplicate')
        cx.observe('handed', len(handed))
        cx.observe('closed', port.closed)


@harness(labels=['multiport-blocking-receive-returns', 'multiport-poll-none', 'multiport-send-fans-out'])
def multiport_receive(cx, where):
    """A blocking receive on a MultiPort returns as soon as a child has a message."""
    import mido
    from mido import ports
    log = []
    with Env(cx=cx) as env:
        a = make_device(mido, log, [], None, False, 'a')
        b = make_device(mido, log, [], None, False, 'b')
        m = mido.Message('note_on', note=cx.int('note', 0, 127))
        if where == 'queued_a':
            a._messages.append(m)
        elif where == 'queued_b':
            b._messages.append(m)
        elif where == 'arrives_b':
            b_in = [m]
            b = make_device(mido, log, b_in, None, False, 'b')
        if where in ('queued_b', 'arrives_b') and cx.bool('a_closed'):
            a.close()                      # a closed port next to the one that has the message
        mp = ports.MultiPort([a, b])
        if where == 'none':
            cx.check(mp.poll() is None and env.total == 0, 'multiport-poll-none')
            cx.check(mp.receive(block=False) is None, 'multiport-poll-none')
        else:
            try:
                r = mp.receive()
                cx.check(r is m and env.total <= 1, 'multiport-blocking-receive-returns')
            except Hang:
                cx.fail('multiport-blocking-receive-returns')
        out = mido.Message('note_off', note=1)
        mp.send(out)
        sends = [x for x in log if x[1] == 'send']
        n_open = sum(1 for d in (a, b) if not d.closed)
        cx.check(len(sends) == n_open and all(x[2] == out and x[2] is not out for x in sends), 'multiport-send-fans-out')


BOUNDS = {
    'quick': 'every history of <=3 operations over {send, receive, poll, next(iter), iter_pending, close, with, reset, panic, '
             'a message arriving at the device} on 4 port kinds (lock-protected device port, EchoPort, IOPort wrapper over two '
             'device ports, MultiPort over two device ports), with 0..2 messages the device will deliver, a device that closes '
             'itself after 0/1/never deliveries (with nothing or with a last message taken in during the closing poll), autoreset on/off; MultiPort blocking receive with the message queued on either '
             'child or arriving; sleeps are counted by a fake sleep with a budget (a wait beyond it = blocked forever)',
    'thorough': 'histories of 4 operations (5 for the device port)',
}
OUTSIDE = 'closing at garbage collection (__del__); callbacks; real waiting times; SocketPort/PortServer lifecycles are in C18; on ' \
          'this property the solver certifies the enumeration of operation sequences (finite control state)'
ASSUMPTIONS = [
    'device double: takes in at most one message per poll and closes itself, like a socket port at EOF, at the first poll after '
    'the configured number of deliveries',
    'blocking forever on an OPEN port with nothing deliverable is the contract, not a hang',
    "random.shuffle inside multi_receive is replaced by a double that explores every polling order (first two polls)",
]


def JOBS(tier):
    quick = tier == 'quick'
    jobs = []
    for kind in ('device', 'echo', 'ioport', 'multi'):
        for n in range(1, (3 if quick else 4) + 1):
            for d in (0, 1, 2):
                for ca in (None, 0, 1):
                    if kind == 'echo' and (d or ca is not None):
                        continue
                    if ca is not None and ca > d:
                        continue
                    for ar in ((False, True) if kind in ('device', 'ioport') else (False,)):
                        if quick and n == 3 and ar and d == 2:
                            continue
                        jobs.append((history, {'kind': kind, 'n': n, 'd': d, 'close_after': ca, 'autoreset': ar},
                                     {'cost': 10 ** n}))
                    if ca is not None and d > ca and kind != 'echo':
                        # the device takes its last message in AND closes during the same poll
                        jobs.append((history, {'kind': kind, 'n': n, 'd': d, 'close_after': ca, 'autoreset': False,
                                               'deliver_on_close': True}, {'cost': 10 ** n}))
    if not quick:
        for d in (1, 2):
            jobs.append((history, {'kind': 'device', 'n': 5, 'd': d, 'close_after': 1, 'autoreset': False},
                         {'cost': 10 ** 5}))
    for w in ('queued_a', 'queued_b', 'arrives_b', 'none'):
        jobs.append((multiport_receive, {'where': w}, {}))
    return jobs
