"""C14 - Text, dict and repr representations round-trip."""
from pysym.cx import harness

from . import smf
from .C06 import sym_message
from .common import MSG, RANGE, REALTIME, in_range

WIDE = 2 ** 40
TIMES = ['symint', 'symfloat', 0, -5, 10 ** 30, 1.5, 1e-300, -2.5e300, 3.0]


def _time(cx, i):
    t = TIMES[i]
    if t == 'symint':
        return cx.int('time', -WIDE, WIDE)
    if t == 'symfloat':
        return cx.opaque('ftime')
    return t


def _msg(cx, mido, type_, L=0):
    m = sym_message(cx, mido, type_, L)
    return m.copy(time=_time(cx, cx.choice('timekind', len(TIMES))))


@harness(labels=['from_str(str(m))==m', 'from_dict(m.dict())==m', 'eval(repr(m))==m', 'format_as_string',
                 'dict-has-plain-data'])
def message_rt(cx, type, L=0):
    import mido
    m = _msg(cx, mido, type, L)
    text = str(m)
    cx.observe('str', len(text.split()))
    m2, exc = cx.raises(lambda: mido.Message.from_str(text), label='from_str(str(m))==m')
    if exc is None:
        cx.check(m2.__class__ is mido.Message and m2 == m, 'from_str(str(m))==m')
    cx.check(mido.format_as_string(m) == text or cx.symbolic, 'format_as_string')
    d = m.dict()
    cx.check(isinstance(d, dict) and d is not vars(m) and (type != 'sysex' or isinstance(d['data'], list)),
             'dict-has-plain-data')
    m3, exc = cx.raises(lambda: mido.Message.from_dict(d), label='from_dict(m.dict())==m')
    if exc is None:
        cx.check(m3 == m, 'from_dict(m.dict())==m')
    ns = {'Message': mido.Message}
    m4, exc = cx.raises(lambda: cx.eval_repr(repr(m), ns), label='eval(repr(m))==m')
    if exc is None:
        cx.check(m4.__class__ is mido.Message and m4 == m, 'eval(repr(m))==m')


def _ns(mido):
    return {'Message': mido.Message, 'MetaMessage': mido.MetaMessage,
            'UnknownMetaMessage': mido.UnknownMetaMessage, 'MidiTrack': mido.MidiTrack,
            'MidiFile': mido.MidiFile}


@harness(labels=['eval(repr(x))==x', 'class-kept'])
def repr_rt(cx, kind):
    """Meta messages (and every other kind) through repr/eval."""
    import mido
    t = _time(cx, cx.choice('timekind', len(TIMES)))
    m = smf.make(cx, mido, kind, 'm_', t)
    back, exc = cx.raises(lambda: cx.eval_repr(repr(m), _ns(mido)), label='eval(repr(x))==x')
    if exc is None:
        cx.check(back == m, 'eval(repr(x))==x')
        cx.check(type(back) is type(m), 'class-kept')
        cx.observe('back', vars(back))


@harness(labels=['eval(repr(track))==track', 'track-class'])
def track_repr(cx, kinds):
    import mido
    tr = mido.MidiTrack(smf.make(cx, mido, k, 'm%d_' % i, cx.int('dt%d' % i, 0, smf.D28))
                        for i, k in enumerate(kinds))
    back, exc = cx.raises(lambda: cx.eval_repr(repr(tr), _ns(mido)), label='eval(repr(track))==track')
    if exc is None:
        cx.check(isinstance(back, mido.MidiTrack), 'track-class')
        cx.check(len(back) == len(tr) and all(type(a) is type(b) and a == b for a, b in zip(back, tr)),
                 'eval(repr(track))==track')


@harness(labels=['eval(repr(file))-same-fields'])
def file_repr(cx, shape):
    import mido
    tracks = []
    n = 0
    for kinds in shape:
        tr = mido.MidiTrack()
        for k in kinds:
            tr.append(smf.make(cx, mido, k, 'm%d_' % n, cx.int('dt%d' % n, 0, smf.D28)))
            n += 1
        tracks.append(tr)
    mid = mido.MidiFile(type=cx.choice('type', 3), ticks_per_beat=cx.int('tpb', 1, 32767), tracks=tracks)
    back, exc = cx.raises(lambda: cx.eval_repr(repr(mid), _ns(mido)), label='eval(repr(file))-same-fields')
    if exc is None:
        cx.check(isinstance(back, mido.MidiFile) and back.type == mid.type and
                 cx.eq(back.ticks_per_beat, mid.ticks_per_beat) and len(back.tracks) == len(mid.tracks) and
                 all(isinstance(a, mido.MidiTrack) and len(a) == len(b) and
                     all(type(x) is type(y) and x == y for x, y in zip(a, b))
                     for a, b in zip(back.tracks, mid.tracks)), 'eval(repr(file))-same-fields')


# ---------------------------------------------------------------- invalid text
TYPE_WORDS = ['note_on', 'sysex', 'clock', 'songpos', 'foo', 'NOTE_ON', 'note_on=1', '1', 'time=0']
ARG_WORDS = [
    ('note', 'tok'), ('note', '60'), ('note', '1.5'), ('note', 'abc'), ('note', ''), ('note', None),
    ('note', '=1'), ('note', '-1'), ('note', '128'), ('note', '0x10'),
    ('channel', 'tok'), ('pos', 'tok'),
    ('time', 'tok'), ('time', '1.5'), ('time', 'abc'), ('time', ''), ('time', '1e3'), ('time', '-7'),
    ('data', '(1,2)'), ('data', '()'), ('data', '(1,2'), ('data', '1,2)'), ('data', '1,2'), ('data', '(1,,2)'),
    ('data', '(300)'), ('data', '(1, 2)'), ('data', 'x1y'), ('data', '(a)'), ('data', '((1))'), ('data', '(-1)'),
    ('bogus', '1'), ('skip_checks', '1'), ('type', 'note_on'), ('', '1'), ('Note', '1'),
]


def _int_text_ok(v):
    import re
    return re.fullmatch(r'[+-]?\d+(_\d+)*', v) is not None


def _reference(cx, words):
    """Independent grammar: (valid?, expected attribute dict) or None when the
    combination is left unjudged."""
    tw = words[0]
    if tw not in MSG:
        return False, None
    attrs = set(MSG[tw][2]) | {'time'}
    exp = {}
    valid = True
    names = [w[0] for w in words[1:] if w[1] is not None]
    if len(set(names)) != len(names):
        return None                                  # duplicated attribute: unjudged
    for name, val, tok in words[1:]:
        if val is None:
            return False, None                       # no '='
        if any(c.isspace() for c in val):
            return False, None                       # a value never contains white space (it separates words)
        if name not in attrs:
            return False, None
        if name == 'data':
            if not (val.startswith('(') and val.endswith(')')):
                return False, None
            inner = val[1:-1]
            if inner == '':
                exp['data'] = []
                continue
            items = inner.split(',')
            if not all(_int_text_ok(x.strip()) for x in items):
                return False, None
            nums = [int(x) for x in items]
            if not all(0 <= x <= 127 for x in nums):
                return False, None
            exp['data'] = nums
        elif name == 'time':
            if tok is not None:
                exp['time'] = tok
            elif _int_text_ok(val):
                exp['time'] = int(val)
            else:
                try:
                    exp['time'] = float(val)
                except ValueError:
                    return False, None
        else:
            if tok is not None:
                valid = cx.And(valid, in_range(cx, name, tok))
                exp[name] = tok
            elif _int_text_ok(val):
                if not RANGE[name][0] <= int(val) <= RANGE[name][1]:
                    return False, None
                exp[name] = int(val)
            else:
                return False, None
    return valid, exp


@harness(labels=['ValueError-or-message', 'invalid=>ValueError', 'valid=>message', 'parsed-values'])
def parse_invalid(cx, nwords, tw):
    """Text assembled from a type word and nwords-1 argument words of the
    vocabulary (integer values are symbolic tokens over +-2^40)."""
    import mido
    words = [TYPE_WORDS[tw]]
    text = [TYPE_WORDS[tw]]
    for i in range(nwords - 1):
        name, val = ARG_WORDS[cx.choice('w%d' % i, len(ARG_WORDS))]
        tok = None
        if val == 'tok':
            tok = cx.int('v%d' % i, -WIDE, WIDE)
            val = str(tok)
        words.append((name, val, tok))
        text.append(name if val is None else '%s=%s' % (name, val))
    line = ' '.join(text)
    ref = _reference(cx, words)
    m, exc = cx.raises(lambda: mido.parse_string(line), ValueError, label='ValueError-or-message')
    if ref is None:
        return
    valid, exp = ref
    if exc is not None:
        cx.check(cx.Not(valid), 'valid=>message')
        return
    cx.check(valid, 'invalid=>ValueError')
    if exp is not None and valid is not False:
        cx.check(isinstance(m, mido.Message) and m.type == words[0] and
                 cx.And(*[cx.eq(list(getattr(m, k)) if k == 'data' else getattr(m, k), v) for k, v in exp.items()]),
                 'parsed-values')
        cx.observe('parsed', vars(m))


LINES = [('note_on note=60', True), ('clock time=1.5', True), ('  sysex data=(1,2)  # trailing', True),
         ('', None), ('   ', None), ('# a comment', None), ('   # indented comment', None),
         ('foo', False), ('note_on note', False), ('note_on note=abc', False), ('sysex data=1,2', False),
         ('note_on bogus=1', False), ('note_on note=128', False), ('=', False), ('note_on # note=abc', True)]


@harness(labels=['one-result-per-nonblank-line', 'errors-carry-line-number', 'messages-right', 'stream-never-raises'])
def parse_stream(cx, n):
    import mido
    idx = [cx.choice('l%d' % i, len(LINES)) for i in range(n)]
    lines = [LINES[i][0] for i in idx]
    as_iter = cx.bool('as_generator')
    src = (x + '\n' for x in lines) if as_iter else lines
    out, exc = cx.raises(lambda: list(mido.parse_string_stream(src)), label='stream-never-raises')
    if exc is not None:
        return
    exp = [(k + 1, LINES[i][1]) for k, i in enumerate(idx) if LINES[i][1] is not None]
    cx.check(len(out) == len(exp), 'one-result-per-nonblank-line')
    for (msg, err), (lineno, ok) in zip(out, exp):
        if ok:
            cx.check(isinstance(msg, mido.Message) and err is None, 'messages-right')
        else:
            cx.check(msg is None and isinstance(err, str) and err.startswith('line %d:' % lineno),
                     'errors-carry-line-number')
    cx.observe('out', [(m is not None, e) for m, e in out])


BOUNDS = {
    'quick': 'all 18 Message types (sysex payload 0..4) with attributes symbolic in range and 9 kinds of time (symbolic int, opaque '
             'float, huge/small/negative concrete): from_str(str(m)), from_dict(m.dict()), eval(repr(m)); eval(repr(x)) for all '
             '27 file kinds incl. every meta type and unknown meta, tracks of length 0..3, files with 0..2 tracks; parse_string on '
             'texts of 1..3 words over a vocabulary of 9 type words x 35 argument words (integer values symbolic over +-2^40) '
             'against an independent grammar; parse_string_stream on all sequences of <=3 lines over a 15-line menu',
    'thorough': 'sysex payload up to 8; texts of 4 words; streams of 4 lines',
}
OUTSIDE = 'arbitrary character strings (no engine here decides Python int()/float() grammar symbolically: number<->text ' \
          'conversion is an uninterpreted inverse pair, pysym.tokens); duplicated attributes in a text line are left ' \
          'unjudged; non-finite and bool times'
ASSUMPTIONS = ['str(int)/int(str), repr(float)/float(str) are mutually inverse (tokens)',
               'validity grammar for message text written in harness/C14.py::_reference']


def JOBS(tier):
    quick = tier == 'quick'
    jobs = []
    for t in MSG:
        if t == 'sysex':
            for L in range(0, (4 if quick else 8) + 1):
                jobs.append((message_rt, {'type': t, 'L': L}, {}))
        else:
            jobs.append((message_rt, {'type': t}, {}))
    for k in smf.ALL_KINDS + REALTIME:
        jobs.append((repr_rt, {'kind': k}, {}))
    R = ['note_on', 'text', 'unknown_meta', 'sysex1', 'set_tempo', 'key_signature', 'end_of_track']
    jobs.append((track_repr, {'kinds': []}, {}))
    for a in smf.ALL_KINDS:
        jobs.append((track_repr, {'kinds': [a]}, {}))
    for a in R:
        for b in R:
            jobs.append((track_repr, {'kinds': [a, b]}, {}))
    for a in R[:4]:
        jobs.append((track_repr, {'kinds': [a, 'note_on', a]}, {}))
    for shape in ([], [[]], [[], []], [['note_on']], [['note_on', 'text']], [['note_on'], ['set_tempo', 'note_on']],
                  [['unknown_meta'], []], [['sysex1', 'key_signature', 'end_of_track']]):
        jobs.append((file_repr, {'shape': shape}, {}))
    for tw in range(len(TYPE_WORDS)):
        for n in (1, 2, 3) if quick else (1, 2, 3, 4):
            if n == 4 and tw > 1:
                continue
            jobs.append((parse_invalid, {'nwords': n, 'tw': tw}, {'cost': 35 ** (n - 1)}))
    for n in range(0, (3 if quick else 4) + 1):
        jobs.append((parse_stream, {'n': n}, {'cost': 15 ** n}))
    return jobs
