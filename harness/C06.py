"""C06 - The parser resynchronises: a complete message is always recognised."""
from pysym.cx import harness

from .common import MSG, RANGE, REALTIME, arbitrary_parser, decide

TYPES = list(MSG)


def sym_message(cx, mido, type_, L=0, tag='m_'):
    """A valid message of the given type with every attribute symbolic in range."""
    if type_ == 'sysex':
        vals = {'data': [cx.int('%sd%d' % (tag, i), 0, 127) for i in range(L)]}
    else:
        vals = {a: cx.int(tag + a, *RANGE[a]) for a in MSG[type_][2]}
    return mido.Message(type_, **vals)


def _same(cx, a, b):
    return a.type == b.type and cx.eq(a.bytes(), b.bytes())


@harness(labels=['queue=Q+M', 'M-equal', 'post-state'])
def resync_step(cx, type, k, active, L=0):
    """ANY tokenizer state (stands for any prefix P, by C04's invariant) with
    one message already queued; feed the encoding of a valid message M."""
    import mido
    p, pre = arbitrary_parser(cx, mido, k, active, queued=1)
    q = list(p.messages)
    was_sysex = active and decide(cx, p._tok._status == 0xF0)
    pre_status = p._tok._status
    m = sym_message(cx, mido, type, L)
    style = cx.choice('style', 2)
    if style == 0:
        p.feed(m.bytes())
    else:
        for b in m.bytes():
            p.feed_byte(b)
    out = list(p.messages)
    cx.observe('out', [x.bytes() for x in out])
    cx.check(len(out) == 2 and out[0] is q[0], 'queue=Q+M')
    if len(out) == 2:
        cx.check(out[1] == m, 'M-equal')       # the real __eq__ (time 0 on both)
    # The statement only speaks of the messages that come out.  The state afterwards merely has to be one
    # from which the next message is recognised again, i.e. any state satisfying the representation invariant
    # (for a real-time M: idle, or whatever it was before).
    from .C04 import _inv
    if type in REALTIME:
        same = cx.And(cx.eq(p._tok._status, pre_status), cx.eq(list(p._tok._bytes), pre)) \
            if len(p._tok._bytes) == len(pre) else False
        cx.check(cx.Or(cx.eq(p._tok._status, 0), same), 'post-state')
    else:
        cx.check(_inv(cx, p._tok), 'post-state')


@harness(labels=['P+M', 'M-equal'])
def resync_direct(cx, type, N, L=0):
    """Bounded direct twin through the public API only: explicit prefix of N
    arbitrary bytes; parse_all(P + enc(M)) == parse_all(P) + [M]."""
    import mido
    P = [cx.int('p%d' % i, 0, 255) for i in range(N)]
    m = sym_message(cx, mido, type, L)
    a = mido.parse_all(P + m.bytes())
    b = mido.parse_all(list(P))
    cx.observe('parsed', [x.bytes() for x in a])
    cx.check(len(a) == len(b) + 1 and cx.And(*[_same(cx, x, y) for x, y in zip(a, b)]), 'P+M')
    if len(a) == len(b) + 1:
        cx.check(a[-1] == m, 'M-equal')


@harness(labels=['concat'])
def concat(cx, n, L=1):
    """Any concatenation of n encoded messages (types chosen symbolically)
    parses back to the same list."""
    import mido
    msgs = []
    for i in range(n):
        t = TYPES[cx.choice('t%d' % i, len(TYPES))]
        msgs.append(sym_message(cx, mido, t, L, tag='m%d_' % i))
    stream = [b for m in msgs for b in m.bytes()]
    out = mido.parse_all(stream)
    cx.observe('parsed', [x.bytes() for x in out])
    cx.check(len(out) == n and all(x == y for x, y in zip(out, msgs)), 'concat')


@harness(labels=['rt-delivered-ahead', 'sysex-intact', 'undefined-rt-ignored'])
def rt_in_sysex(cx, L, r):
    """r real-time bytes (symbolic over F8..FF) at symbolic positions strictly
    inside the encoding of a sysex with symbolic payload."""
    import mido
    data = [cx.int('d%d' % i, 0, 127) for i in range(L)]
    sx = mido.Message('sysex', data=data)
    enc = sx.bytes()
    rts = [cx.int('rt%d' % i, 0xF8, 0xFF) for i in range(r)]
    # insertion points strictly inside: before index 1 .. before index L+1
    pos = []
    base = 0
    for i in range(r):          # non-decreasing positions (multisets, not tuples)
        base += cx.choice('pos%d' % i, L + 1 - base)
        pos.append(1 + base)
    stream = []
    k = 0
    for i, b in enumerate(enc):
        while k < r and pos[k] == i:
            stream.append(rts[k])
            k += 1
        stream.append(b)
    out = mido.parse_all(stream)
    cx.observe('parsed', [x.bytes() for x in out])
    defined = [b for b in rts if decide(cx, cx.And(b != 0xF9, b != 0xFD))]
    cx.check(len(defined) == r or len(out) == len(defined) + 1, 'undefined-rt-ignored')
    cx.check(len(out) == len(defined) + 1 and
             cx.And(*[cx.And(len(m.bytes()) == 1, cx.eq(m.bytes()[0], b)) for m, b in zip(out, defined)]),
             'rt-delivered-ahead')
    if out:
        cx.check(out[-1] == sx and cx.eq(list(out[-1].data), data), 'sysex-intact')


CLASS = [0x00, 0x41, 0x7F, 0x85, 0x93, 0xC2, 0xE1, 0xF0, 0xF1, 0xF2, 0xF3, 0xF6, 0xF7, 0xF8, 0xF9, 0xFE, 0xFF]
CONTAINERS = ['bytes', 'bytearray', 'tuple', 'generator']


@harness(labels=['containers-agree'])
def containers(cx, N):
    """The same stream (N bytes, one representative per byte class each, chosen by certified forks) cut at a
    symbolic position and fed as real bytes / bytearray / tuple / generator chunks - with a sysex possibly open
    at the cut - must parse like the list fed at once."""
    import mido
    pre = [[], [0xF0, 1], [0x90, 2]][cx.choice('open', 3)]
    items = pre + [CLASS[cx.choice('c%d' % i, len(CLASS))] for i in range(N)]
    want = mido.parse_all(list(items))
    cut = len(pre) + cx.choice('cut', N + 1)
    kind = CONTAINERS[cx.choice('container', len(CONTAINERS))]

    def mk(chunk):
        if kind == 'bytes':
            return bytes(chunk)
        if kind == 'bytearray':
            return bytearray(chunk)
        if kind == 'tuple':
            return tuple(chunk)
        return (b for b in chunk)
    p = mido.Parser()
    got, exc = cx.raises(lambda: (p.feed(mk(items[:cut])), p.feed(mk(items[cut:])), list(p))[2],
                         label='containers-agree')
    if exc is None:
        cx.check(len(got) == len(want) and all(a == b for a, b in zip(got, want)), 'containers-agree')


SCALE = [127, 128, 1000, 16384, 65535, 65536, 70000]


@harness(labels=['large-sysex-recognised', 'many-messages-all-delivered'])
def scale(cx):
    """Concrete scale probes (one execution each, no symbolic dimension): a sysex of a boundary length after a
    broken prefix, and a long concatenation of messages."""
    import mido
    L = SCALE[cx.choice('len', len(SCALE))]
    sx = mido.Message('sysex', data=[i % 128 for i in range(L)])
    kind = cx.choice('container', 2)
    stream = [0x90, 5] + sx.bytes() + [0xF8]
    out = mido.parse_all(bytes(stream) if kind else stream)
    cx.check(len(out) == 2 and out[0] == sx and out[1].type == 'clock', 'large-sysex-recognised')
    n = [1000, 1025, 70000][cx.choice('count', 3)]
    msgs = [mido.Message('note_on', note=i % 128, velocity=(i // 128) % 128, channel=i % 16) for i in range(n)]
    stream = [b for m in msgs for b in m.bytes()]
    out = mido.parse_all(stream)
    cx.check(len(out) == n and out[0] == msgs[0] and out[-1] == msgs[-1] and out[n // 2] == msgs[n // 2],
             'many-messages-all-delivered')


BOUNDS = {
    'quick': 'inductive: every tokenizer state satisfying the invariant (buffer 1..4 active / 0..1 stale idle) x every one '
             'of the 18 message types with symbolic in-range attributes (sysex payload 0..6), fed whole or byte-wise; direct '
             'twin: every prefix of 0..2 arbitrary bytes x every type; concatenations of 2 messages of symbolic types; '
             'real-time bytes F8..FF (defined and undefined) 1..3 of them at every insertion position inside a sysex of payload 0..4; '
             'streams of <=2 (thorough 3) class-representative bytes after an open sysex / open note fed as real bytes, bytearray, tuple and '
             'generator chunks cut at every position; concrete scale probes (sysex of 127..70000 bytes, 1000..70000 messages)',
    'thorough': 'sysex payload up to 16; concatenations of 3 messages; prefix up to 3 bytes for a subset of types; r<=3 in L<=6',
}
OUTSIDE = 'sysex payload longer than stated; more than 3 real-time bytes inside one sysex; prefixes longer than the direct ' \
          'bound are covered through the inductive harness (reads tokenizer internals)'
ASSUMPTIONS = ['tokenizer representation invariant as in C04 (arbitrary state = arbitrary prefix)']


def JOBS(tier):
    jobs = []
    quick = tier == 'quick'
    states = [(1, True), (2, True), (3, True), (4, True), (0, False), (1, False)]
    for t in TYPES:
        Ls = [0] if t != 'sysex' else ([0, 1, 2, 6] if quick else [0, 1, 2, 6, 16])
        for L in Ls:
            for k, active in states:
                jobs.append((resync_step, {'type': t, 'k': k, 'active': active, 'L': L}, {'cost': 3 + L}))
            for N in range(0, 3):
                jobs.append((resync_direct, {'type': t, 'N': N, 'L': L}, {'cost': 10 ** N}))
    if not quick:
        for t in ('note_on', 'clock', 'sysex', 'songpos', 'tune_request'):
            jobs.append((resync_direct, {'type': t, 'N': 3, 'L': 1}, {'cost': 12000}))
    for N in ((1, 2) if quick else (1, 2, 3)):
        jobs.append((containers, {'N': N}, {'cost': 17 ** N // 4}))
    jobs.append((scale, {}, {'cost': 50}))
    jobs.append((concat, {'n': 1}, {}))
    jobs.append((concat, {'n': 2}, {'cost': 500}))
    if not quick:
        jobs.append((concat, {'n': 3}, {'cost': 10000}))
    for L in range(0, (4 if quick else 6) + 1):
        for r in (1, 2, 3):
            if quick and r == 3 and L > 2:
                continue
            jobs.append((rt_in_sysex, {'L': L, 'r': r}, {'cost': (L + 1) ** r * 8 ** r // 10}))
    return jobs
