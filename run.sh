#!/bin/sh
# usage: run.sh <property-id> quick|thorough [--replay file] [--only harness-glob]
# exit 0 HOLDS, 1 VIOLATION (line "VIOLATION property=<id> replay=<path>"), 2 INCONCLUSIVE
here="$(cd "$(dirname "$0")" && pwd)"
"$here/setup.sh" || { echo "INCONCLUSIVE setup failed"; exit 2; }
repo="${MIDO_REPO:-/repo}"
export PYTHONPATH="$here:$here/.deps:$repo"
export PYTHONDONTWRITEBYTECODE=1 PYTHONHASHSEED=0
cd "$here"
exec /venv/bin/python -B -m pysym.runner "$@"
