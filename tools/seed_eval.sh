#!/bin/sh
# usage: tools/seed_eval.sh <property> <src-dir-with-patch.diff-and-demo.py> <name> [tier]
# 1. confirms the seeded change in a scratch worktree (outside /repo and /verif): patch applies, the
#    repository's tests pass with it, the demonstration fails with it and passes without it;
# 2. applies it to /repo, runs the property's check, reverts /repo straight afterwards;
# 3. files it under /verif/seeded/<name>/ with meta.json.
prop="$1"; src="$2"; name="$3"; tier="${4:-quick}"
here="$(cd "$(dirname "$0")/.." && pwd)"
w=$(mktemp -d /tmp/sv.XXXXXX); rmdir "$w"
git -C /repo worktree add -q "$w" HEAD || exit 3
res_apply=no; res_tests=""; demo_with=""; demo_without=""
( cd "$w" && PYTHONPATH="$w" /venv/bin/python "$src/demo.py" >/dev/null 2>&1 ); demo_without=$?
if git -C "$w" apply "$src/patch.diff" 2>/dev/null; then
    res_apply=yes
    res_tests=$(cd "$w" && PYTHONPATH="$w" /venv/bin/python -m pytest -q -p no:cacheprovider --deselect tests/midifiles/test_tracks.py::test_merge_large_midifile 2>&1 | tail -1)
    ( cd "$w" && PYTHONPATH="$w" /venv/bin/python "$src/demo.py" >/dev/null 2>&1 ); demo_with=$?
fi
git -C /repo worktree remove --force "$w"; git -C /repo worktree prune
echo "apply=$res_apply tests=[$res_tests] demo_without=$demo_without demo_with=$demo_with"
[ "$res_apply" = yes ] || exit 3
# --- run the check against /repo with the change applied, then undo
git -C /repo apply "$src/patch.diff" || exit 3
out=$(mktemp /tmp/seedrun.XXXXXX)
( cd "$here" && timeout 3000 ./run.sh "$prop" "$tier" --no-evidence > "$out" 2>&1 ); code=$?
git -C /repo checkout -- . 
first=$(grep -m1 -A1 '^VIOLATION' "$out" | tr '\n' ' ' | cut -c1-400)
incon=$(grep -m1 '^INCONCLUSIVE' "$out" | cut -c1-300)
echo "check exit=$code $first $incon"
mkdir -p "$here/seeded/$name"
cp "$src/patch.diff" "$src/demo.py" "$here/seeded/$name/"
[ -f "$src/README.txt" ] && cp "$src/README.txt" "$here/seeded/$name/README.txt"
/venv/bin/python - "$here/seeded/$name/meta.json" "$prop" "$name" "$res_tests" "$demo_without" "$demo_with" "$code" "$first" "$tier" "$src" <<'PY'
import sys, json, os
path, prop, name, tests, dwo, dw, code, first, tier, src = sys.argv[1:11]
readme = ''
try:
    readme = open(os.path.join(src, 'README.txt')).read()
except OSError:
    pass
old = {}
if os.path.exists(path):
    try:
        old = json.load(open(path))
    except ValueError:
        old = {}
meta = {
    'breaks_property': prop,
    'name': name,
    'origin': 'fresh sub-agent given only the property text and a scratch worktree (nothing from /verif)',
    'needs_to_manifest': readme.strip(),
    'confirmed': {
        'repository_tests_with_change': tests,
        'demo_exit_without_change': int(dwo),
        'demo_exit_with_change': int(dw) if dw else None,
        'how': 'tools/seed_eval.sh: scratch worktree of /repo HEAD outside /repo and /verif; git apply; pytest; demo.py with and without',
    },
    'check_runs': old.get('check_runs', []) + [{
        'command': './run.sh %s %s (patch applied to /repo with git apply, reverted afterwards)' % (prop, tier),
        'exit': int(code), 'detected': int(code) == 1, 'first_violation': first,
    }],
}
json.dump(meta, open(path, 'w'), indent=1)
PY
rm -f "$out"
