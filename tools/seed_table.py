#!/usr/bin/env python3
"""Regenerates /verif/seeded/README.md from seeded/*/meta.json."""
import glob
import json
import os

HERE = os.path.dirname(os.path.dirname(os.path.abspath(__file__)))
rows = []
for d in sorted(glob.glob(os.path.join(HERE, 'seeded', '*'))):
    mp = os.path.join(d, 'meta.json')
    if not os.path.isfile(mp):
        continue
    m = json.load(open(mp))
    runs = m.get('check_runs', [])
    first = runs[0] if runs else {}
    last = runs[-1] if runs else {}
    what = (m.get('needs_to_manifest') or '').strip().split('\n')
    what = ' '.join(x.strip() for x in what[:3])[:220]
    lab = ''
    fv = last.get('first_violation', '')
    if 'label=' in fv:
        lab = fv.split('label=')[1].split(' ')[0]
        h = fv.split('harness=')[1].split(' label=')[0] if 'harness=' in fv else ''
        lab = '%s / %s' % (h.split('[')[0], lab)
    status = 'caught' if last.get('detected') else ('INCONCLUSIVE' if last.get('exit') == 2 else 'MISSED')
    hist = ''
    if len(runs) > 1 and not first.get('detected') and last.get('detected'):
        hist = ' (missed at first; check strengthened)'
    rows.append((m['name'], m['breaks_property'], status + hist, lab, what))
with open(os.path.join(HERE, 'seeded', 'README.md'), 'w') as f:
    f.write('# Seeded changes\n\nEach directory holds a change to mido/mido written by a fresh sub-agent that saw only the text of '
            'one property and a scratch worktree (nothing from /verif), its demonstration, and meta.json (what it needs to '
            'manifest, how it was confirmed, every run of the check against it). None of them is ever committed to /repo. '
            'Regenerate with tools/seed_table.py.\n\n')
    f.write('| change | property | result of `./run.sh <property> quick` | caught by (harness / obligation) | what it is |\n|---|---|---|---|---|\n')
    for r in rows:
        f.write('| %s | %s | %s | %s | %s |\n' % r)
    n = len(rows)
    c = sum(1 for r in rows if r[2].startswith('caught'))
    f.write('\n%d of %d seeded changes are reported as VIOLATION by the check of the property they were written against '
            '(after the strengthening recorded in each meta.json; first answers: see DESIGN.md 7). C20-mut5 is left '
            'standing on purpose: the statement does not say when the environment variables are read.\n' % (c, n))
print('rows', len(rows))
