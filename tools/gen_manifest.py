#!/usr/bin/env python3
"""Regenerates /verif/MANIFEST.json from the table below (kept in one place so
that claimed / not_applicable stay consistent)."""
import json
import os

HERE = os.path.dirname(os.path.dirname(os.path.abspath(__file__)))

TECH = 'symbolic execution of the real mido source on z3-backed proxy values (pysym): every feasible path ' \
       'within the stated bounds explored, each obligation decided by an SMT query over the path condition, ' \
       'every counterexample replayed on the unstubbed code'
NOTE = 'Trusted: CPython, z3 (unknown => INCONCLUSIVE), the proxy operator semantics and stubs of ' \
       'pysym/ (validated on every path by a concrete re-execution whose observables must agree), the ' \
       'reference models in harness/. Bounded: see evidence coverage.bounds / outside_the_claim.'

CLAIMED = {
    'C01': ('Within the bounds, every one of the 1.33M valid non-sysex messages and every sysex payload up to the '
            'stated length is covered by a handful of path conditions; encode layout is checked against an arithmetic '
            'reference and decode(encode(m)) == m with the real __eq__, for bytes(), bin(), tuple and hex()/from_hex.', '4/C01'),
}

CLAIMED.update({
    'C02': ('Every integer sequence of length 0..10 (thorough 0..24) with items symbolic over +-2^33 is decided: from_bytes '
            'returns iff the input is exactly one well-formed message per an independent reference predicate, the returned '
            "message's bytes() reproduce the input, and only ValueError (TypeError for non-integers) escapes; from_hex likewise.", '4/C02'),
    'C03': ('For every (type, attribute, entry point) the target value is symbolic over +-2^40: accepted iff in the documented '
            'range, a rejection leaves the original object untouched (identity of every stored value), accepted calls change '
            'only that attribute; ill-typed menu, sysex containers, del/type/unknown names and assignment histories up to k.', '4/C03'),
    'C04': ('Bounded direct: every byte string up to length 3 (thorough 4) over the full alphabet through parse_all - no '
            'exception, every message well-formed, each defined real-time byte exactly one message in order, other messages a '
            'subsequence of the input. Inductive: from every tokenizer state satisfying the representation invariant one '
            'arbitrary byte keeps the invariant and emits only buffer+byte, which extends the claim to streams of any length.', '4/C04'),
    'C05': ('All chunkings/feeding styles/retrieval interleavings of every stream up to length 2 (3 without retrieval ops) agree with '
            'parse_all; inductive lemmas from arbitrary parser states (feed is a monoid action; retrieval commutes with feeding and is '
            'FIFO; pending/get_message/iteration contract) carry it to streams of any length; ParserQueue single-threaded.', '4/C05'),
    'C06': ('From every tokenizer state satisfying the invariant (= any prefix) feeding the encoding of a symbolic valid message of '
            'each of the 18 types queues exactly that message; direct twin with explicit prefixes up to 2 bytes; concatenations; '
            'real-time bytes at every position strictly inside a sysex are delivered ahead and leave the payload intact.', '4/C06'),
    'C09': ('Every integer attribute of every meta type symbolic over +-2^40: accepted iff documented, wire layout against an '
            'arithmetic SMF reference, from_bytes and read_meta_message both give back an equal message; denominator symbolic over '
            '320-bit integers; VLQ over +-2^40; payload length of from_bytes symbolic up to 2^21; key table, text boundary lengths.', '4/C09'),
    'C07': ('Real save -> real load on symbolic files: every ordered pair of 27 message kinds (attributes symbolic, running status '
            'triggered/broken by the solver), delta times symbolic up to 2^28 (2^35), headers, payload-length boundaries, refusal '
            'cases, and the load-save-load fixed point for every track body of <=5 (thorough 6) arbitrary bytes.', '4/C07'),
    'C08': ('The bytes written by the real save() are decoded by an independent reference SMF decoder (minimal VLQs, legal running '
            'status only, exact chunk lengths, closing FF 2F 00) and must give back the in-memory events; the real loader is run on '
            'reference encodings with symbolic legal alternatives (running status, padded VLQs, long header) incl. debug and clip.', '4/C08'),
    'C12': ('The real merge_tracks (incl. its list.sort) runs on tracks whose every delta is a symbolic integer (z3 Int sort), so all '
            'orderings and tie patterns between tracks are chosen by the solver: exactly the non-end_of_track messages, each at its '
            'source absolute tick, ordered by (time, track, index), one trailing end_of_track, total duration, inputs untouched.', '4/C12'),
    'C14': ('from_str(str(m)), from_dict(m.dict()), eval(repr(x)) for all message kinds, tracks of length 0..3 and files, with number<->text '
            'conversion abstracted as an inverse pair so that all attribute values are covered at once; parse_string against an '
            'independent grammar over a word vocabulary with symbolic integer values; parse_string_stream line accounting.', '4/C14'),
    'C15': ('copy/freeze/thaw class and equality, None->None, independence under a symbolic assignment on either object, frozen '
            'immutability, copy(**overrides) with wide symbolic values against a fresh construction (same result or same exception '
            'class), hash/dict-key behaviour over an attribute menu; for 33 message kinds.', '4/C15'),
    'C13': ('The real __iter__/length/play/tick2second/second2tick run on symbolic ticks, tempos and ticks_per_beat (z3 Int) and '
            'symbolic real clocks: cumulative time equals the exact tempo-map integral in the exact-real model (and within '
            '(4n+4) ulp in the standard (1+d) rounding model for small shapes); play never early, sleeps exactly the remainder, no '
            'drift; units inverse. Bit-exact IEEE arithmetic is outside (stated).', '4/C13'),
    'C16': ('observe / edit / observe histories on symbolic files: after each of 17 documented edits (optionally preceded by an '
            'observation that could populate a cache) every observation (iterate, length, merged_track, save, play) equals the '
            'one on a freshly built file; hidden state is checked to be at most the merge cache.', '4/C16'),
    'C17': ('Load faults with a SYMBOLIC truncation offset, a SYMBOLIC substituted byte at every offset and arbitrary short track '
            'bodies, save faults at a symbolic message index: on every path of the real loader/writer the default charset is in '
            'force afterwards (observed through the public API); charset x text menu round trips with the file bytes compared to '
            'text.encode(charset) via the reference decoder.', '4/C17'),
    'C19': ('write_syx_file -> read_syx_file on lists of messages of symbolically chosen kinds with symbolic sysex data, binary and '
            'plain text (hex rendering/parsing abstracted as an inverse pair so every byte value is covered at once), white-space '
            'layouts, interleaved other messages, corrupt texts, on an in-memory file system double.', '4/C19'),
    'C20': ('The real Backend/set_backend run against recording doubles of importlib, os.environ and a backend module over the full '
            'finite configuration grid, every point a solver-certified fork, and are compared with a reference resolver of the '
            "property's precedence rules (lazy single import, name/api/env precedence, constructor arguments, name listings).", '4/C20'),
    'C11': ('Every history of <=3 (thorough 4-5) operations on a device port, EchoPort, IOPort wrapper and MultiPort, over device '
            'doubles that deliver 0..2 messages and close themselves at every position relative to message arrival, with a fake '
            'sleep that counts waits: single _close, reset messages once before it, ValueError after close, FIFO drain then stop, '
            'iteration ends quietly, poll never sleeps, blocking receive returns at once when a message is deliverable.', '4/C11'),
    'C18': ('The real SocketPort/PortServer run on a stream-socket/select model (validated against real socket.socketpair() on every '
            'run): message streams with symbolic contents cut at a SYMBOLIC offset and delivered in every segmentation, then a '
            'disconnect: exactly the complete messages, quiet end of iteration, port closed, descriptor released; close seen as EOF; '
            'server fairness/termination; address format/parse with a symbolic port number.', '4/C18'),
    'C10': ('Real threads run the real ports.py under a deterministic line-level scheduler whose every scheduling decision is a '
            'symbolic integer: all schedules within the preemption bound are explored (each a solver-certified fork) with symbolic '
            'message contents, on a byte-wise lock-protected device port, EchoPort, the IOPort wrapper and MultiPort: no call raises, '
            'every call returns, each message exactly once and intact, per-sender order, received messages are copies.', '4/C10'),
})

PENDING = {}     # id -> reason (not claimed)


def main():
    props = [json.loads(l) for l in open(os.path.join(HERE, 'properties.jsonl'))]
    checks = []
    na = []
    for p in props:
        pid = p['id']
        if pid in CLAIMED:
            text, ref = CLAIMED[pid]
            checks.append({
                'property_id': pid,
                'quick_cmd': './run.sh %s quick' % pid,
                'thorough_cmd': './run.sh %s thorough' % pid,
                'evidence_file': '/verif/evidence/%s.json' % pid,
                'replay_cmd_template': './run.sh %s --replay {path}' % pid,
                'engine': 'pysym',
                'level_claimed': {'category': 'model_checking', 'text': text, 'design_ref': 'DESIGN.md ' + ref},
                'level_note': NOTE,
                'technique': TECH,
            })
        else:
            na.append({'property_id': pid,
                       'reason': PENDING.get(pid, 'check not built yet in this round (planned: DESIGN.md section 4); '
                                                  'not claimed until its harness decides it on the unchanged tree')})
    man = {
        'version': 1,
        'setup_cmd': './setup.sh',
        'hooks': {
            'guard': 'MIDO_VERIF',
            'enable': 'none needed: all instrumentation is harness-side module-global shadowing; the guard name is reserved and unused',
            'baseline_off_cmd': 'cd /repo && /venv/bin/python -m pytest -q -p no:cacheprovider --timeout=900',
            'source_commits': [],
            'add_only': True,
        },
        'engines': [{
            'name': 'pysym',
            'path': '/verif/pysym',
            'serves_properties': sorted(CLAIMED),
            'kind_free_text': 'proxy-value symbolic executor for Python driving z3 (solver-based checking of the real code)',
        }],
        'checks': checks,
        'not_applicable': na,
        'notes': 'Exit codes: 0 HOLDS, 1 VIOLATION (with replay), 2 INCONCLUSIVE (solver unknown, unmodelled value, budget, '
                 'or a counterexample/cross-check that does not reproduce concretely). MIDO_REPO may point a check at another tree; default /repo.',
    }
    with open(os.path.join(HERE, 'MANIFEST.json'), 'w') as f:
        json.dump(man, f, indent=1)
    print('claimed', len(checks), 'not_applicable', len(na))


if __name__ == '__main__':
    main()
