#!/bin/sh
# usage: tools/mut.sh <file-relative-to-repo> <python-regex-old> <new> <prop> [tier] [extra runner args]
# Applies a one-off textual mutation to a scratch copy of /repo (outside /repo and /verif),
# points the check at it through MIDO_REPO and removes the copy.  Detection testing only.
set -e
f="$1"; old="$2"; new="$3"; prop="$4"; tier="${5:-quick}"; shift 5 || shift 4
d=$(mktemp -d /tmp/mut.XXXXXX)
cp -r /repo/mido "$d/"
/venv/bin/python - "$d/$f" "$old" "$new" <<'PY'
import sys,re
p,old,new=sys.argv[1:4]
s=open(p).read()
n=len(re.findall(old,s))
if n!=1:
    print('pattern matches',n,'times'); sys.exit(3)
open(p,'w').write(re.sub(old,lambda m:new,s))
PY
(cd "$d" && cp -r /repo/tests . 2>/dev/null; /venv/bin/python -m pytest -q -x -p no:cacheprovider tests 2>&1 | tail -1)
MIDO_REPO="$d" /verif/run.sh "$prop" "$tier" --no-evidence "$@" 2>&1 | grep -E "^(VIOLATION|HOLDS|INCONCLUSIVE|KNOWN)" | cut -c1-260 | head -8
rm -rf "$d"
