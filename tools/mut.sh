#!/bin/sh
# usage: tools/mut.sh <file-relative-to-repo> <python-regex-old> <new> <prop> [tier] [extra runner args]
# Applies a one-off textual mutation to a scratch copy of /repo (outside /repo and /verif),
# runs the repository's tests on it, points the check at it through MIDO_REPO, removes the copy.
f="$1"; old="$2"; new="$3"; prop="$4"; tier="${5:-quick}"
[ $# -ge 5 ] && shift 5 || shift 4
d=$(mktemp -d /tmp/mut.XXXXXX)
cp -r /repo/mido /repo/tests /repo/pyproject.toml "$d/"
/venv/bin/python - "$d/$f" "$old" "$new" <<'PY' || { rm -rf "$d"; exit 3; }
import sys,re
p,old,new=sys.argv[1:4]
s=open(p).read()
n=len(re.findall(old,s))
if n!=1:
    print('pattern matches',n,'times'); sys.exit(3)
new=new.encode().decode('unicode_escape')
open(p,'w').write(re.sub(old,lambda m:new,s))
PY
echo "tests: $(cd "$d" && PYTHONPATH="$d" /venv/bin/python -m pytest -q -p no:cacheprovider tests 2>&1 | tail -1)"
MIDO_REPO="$d" /verif/run.sh "$prop" "$tier" --no-evidence "$@" > "$d/out.log" 2>&1
echo "exit=$?"
grep -E "^(VIOLATION|HOLDS|INCONCLUSIVE|KNOWN)|^  harness" "$d/out.log" | cut -c1-300 | head -8
rm -rf "$d"
