#!/usr/bin/env python3
"""Regenerates /verif/seeded/refactors.md from seeded/refactors/*/result.txt."""
import glob
import os
import re

HERE = os.path.dirname(os.path.dirname(os.path.abspath(__file__)))
rows = []
for d in sorted(glob.glob(os.path.join(HERE, 'seeded', 'refactors', '*'))):
    rp = os.path.join(d, 'result.txt')
    if not os.path.isfile(rp):
        continue
    txt = open(rp).read()
    lines = [l for l in txt.splitlines() if l.startswith('check')]
    last = lines[-1] if lines else ''
    false_alarm = 'false alarm' in txt.lower()
    ms = re.findall(r'\b(HOLDS|VIOLATION|INCONCLUSIVE) property', last) or re.findall(r'\b(HOLDS|INCONCLUSIVE)\b', last)
    verdict = ms[-1] if ms else 'no verdict within the time limit (treated as INCONCLUSIVE)'
    why = ''
    if verdict == 'INCONCLUSIVE':
        r = re.search(r'reason=([^\n]*)', last)
        why = (r.group(1)[:160] if r else '')
    readme = ''
    rd = os.path.join(d, 'README.txt')
    if os.path.isfile(rd):
        readme = ' '.join(x.strip() for x in open(rd).read().strip().splitlines()[:3])[:200]
    if false_alarm:
        verdict += ' (the FIRST answer was a false alarm of the check: a harness double was incomplete; fixed)'
    rows.append((os.path.basename(d), verdict, why, readme))
with open(os.path.join(HERE, 'seeded', 'refactors.md'), 'w') as f:
    f.write('# Behaviour-preserving refactorings (false-alarm probe)\n\nWritten by sub-agents that were asked to restructure the code a '
            'property depends on WITHOUT breaking the property (tests pass, their own self-tests pass). Each was applied to a '
            'scratch worktree and the property\'s quick check was aimed at it (MIDO_REPO). The only acceptable answers are HOLDS '
            'and INCONCLUSIVE (the engine cannot model the rewritten code); a VIOLATION here is a false alarm of the check.\n\n')
    f.write('| refactoring | verdict | reason if inconclusive | what was restructured |\n|---|---|---|---|\n')
    for r in rows:
        f.write('| %s | %s | %s | %s |\n' % r)
    f.write('\n%d refactorings: %d HOLDS, %d INCONCLUSIVE / no verdict in time, %d VIOLATION (false alarms).\n' % (
        len(rows), sum(1 for r in rows if r[1].startswith('HOLDS')),
        sum(1 for r in rows if not r[1].startswith('HOLDS') and not r[1].startswith('VIOLATION')),
        sum(1 for r in rows if r[1].startswith('VIOLATION'))))
    f.write('Two refactorings (C11-ref2, C18-ref2) first drew a VIOLATION: both were false alarms caused by incomplete harness doubles '
            '(random.sample, select() on socket objects), found by this probe and fixed; doubles now answer INCONCLUSIVE for API they do not model.\n')
print(len(rows))
