from mido.sockets import parse_address, format_address
from mido.messages.messages import parse_string
from mido.messages.strings import str2msg

def addr_inverse(host: str, port: int) -> bool:
    """
    pre: len(host) <= 4 and ':' not in host
    pre: 0 < port < 65536
    post: _
    """
    return parse_address(format_address(host, port)) == (host, port)

def parse_total(text: str) -> bool:
    """
    pre: len(text) <= 5
    post: True
    raises: ValueError
    """
    parse_string(text)
    return True

def parse_addr_total(text: str) -> bool:
    """
    pre: len(text) <= 5
    post: True
    raises: ValueError
    """
    parse_address(text)
    return True
