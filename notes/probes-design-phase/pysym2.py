"""Prototype v2 of the proxy symbolic executor: static interval decisions with per-path
refinement, model-guided forking (1 query per fork), bisecting lookup proxy."""
import z3, time, numbers

W = 64


class Unmodelled(Exception):
    pass


class PathAbort(BaseException):
    pass


CUR = None


class Explorer:
    def __init__(self, timeout_ms=30000):
        self.solver = z3.Solver()
        self.solver.set('timeout', timeout_ms)
        self.trail = []   # [cond, decision, exhausted, aux, refinement-undo]
        self.pos = 0
        self.stats = dict(paths=0, queries=0, solver_s=0.0, forks=0, static=0, violations=0, checks=0)
        self.inputs = {}
        self.violations = []
        self._model = None
        self.ref = {}     # expr id -> (lo, hi) path-local refinement

    def _sat(self, *extra):
        t = time.time()
        self.stats['queries'] += 1
        r = self.solver.check(*extra)
        self.stats['solver_s'] += time.time() - t
        if r == z3.unknown:
            raise Unmodelled('solver unknown')
        return r == z3.sat

    def get_model(self):
        if self._model is None:
            if not self._sat():
                raise PathAbort()
            self._model = self.solver.model()
        return self._model

    def fresh_int(self, name, lo, hi):
        v = self.inputs.get(name)
        if v is None:
            v = self.inputs[name] = z3.BitVec(name, W)
        s = SymInt(v, lo, hi)
        self.assume(z3.And(v >= lo, v <= hi))
        return s

    def replaying(self):
        return self.pos < len(self.trail)

    def _apply_ref(self, e):
        r = e[4]
        if r is not None:
            k, lohi = r
            e[5] = self.ref.get(k)
            self.ref[k] = lohi

    def fork(self, cond, aux=None, refine=None):
        """refine: optional (true_ref, false_ref), each (exprid, (lo,hi)) or None"""
        if self.pos < len(self.trail):
            e = self.trail[self.pos]
            self.pos += 1
            self._apply_ref(e)
            return e[1]
        self.stats['forks'] += 1
        m = self.get_model()
        val = z3.is_true(m.eval(cond, model_completion=True))
        neg = z3.Not(cond)
        other = self._sat(neg if val else cond)
        r = None
        if refine is not None:
            r = refine[0] if val else refine[1]
        e = [cond, val, not other, aux, r, None, refine]
        self.trail.append(e)
        self.solver.push()
        self.solver.add(cond if val else neg)
        self.pos += 1
        self._apply_ref(e)
        return val

    def assume(self, cond):
        if isinstance(cond, SymBool):
            cond = cond.e
        elif isinstance(cond, bool):
            if not cond:
                raise PathAbort()
            return
        if self.pos < len(self.trail):
            self.pos += 1
            return
        self.trail.append([cond, True, True, None, None, None, None])
        self.solver.push(); self.solver.add(cond)
        self._model = None
        self.pos += 1

    def check(self, cond, label=''):
        self.stats['checks'] += 1
        if isinstance(cond, bool):
            if cond:
                return True
            m = self.model_dict()
        else:
            e = cond.e if isinstance(cond, SymBool) else cond
            if not self._sat(z3.Not(e)):
                return True
            mm = self.solver.model()
            m = {k: mm.eval(v, model_completion=True).as_signed_long() for k, v in self.inputs.items()}
        self.stats['violations'] += 1
        self.violations.append((label, m))
        return False

    def model_dict(self):
        mm = self.get_model()
        return {k: mm.eval(v, model_completion=True).as_signed_long() for k, v in self.inputs.items()}

    def explore(self, fn, max_paths=10**7):
        global CUR
        while self.stats['paths'] < max_paths:
            self.pos = 0
            self.ref = {}
            self.stats['paths'] += 1
            CUR = self
            try:
                fn(self)
            except PathAbort:
                pass
            finally:
                CUR = None
            while self.trail and self.trail[-1][2]:
                self.trail.pop(); self.solver.pop()
            if not self.trail:
                break
            e = self.trail[-1]
            self.solver.pop()
            e[1] = not e[1]; e[2] = True
            if e[6] is not None:
                e[4] = e[6][0] if e[1] else e[6][1]
            self.solver.push()
            self.solver.add(e[0] if e[1] else z3.Not(e[0]))
            self._model = None
        return self.stats


def _bits(lo, hi):
    return max(abs(lo), abs(hi)).bit_length() + 1


class SymBool:
    __slots__ = ('e', 'refine')

    def __init__(self, e, refine=None):
        self.e = e
        self.refine = refine

    def __bool__(self):
        return CUR.fork(self.e, refine=self.refine)

    def __and__(self, o):
        if o is True: return self
        if o is False: return False
        return SymBool(z3.And(self.e, o.e))
    __rand__ = __and__

    def __or__(self, o):
        if o is True: return True
        if o is False: return self
        return SymBool(z3.Or(self.e, o.e))
    __ror__ = __or__

    def __invert__(self):
        return SymBool(z3.Not(self.e))


class SymInt:
    __slots__ = ('e', 'lo', 'hi', 'id')

    def __init__(self, e, lo, hi):
        if _bits(lo, hi) > W - 1:
            raise Unmodelled(f'magnitude bound exceeded {lo} {hi}')
        self.e = e
        self.lo = lo
        self.hi = hi
        self.id = e.get_id()

    def rng(self):
        r = CUR.ref.get(self.id)
        if r is None:
            return self.lo, self.hi
        return max(self.lo, r[0]), min(self.hi, r[1])

    @staticmethod
    def lift(o):
        if isinstance(o, SymInt):
            return o
        if isinstance(o, int):
            o = int(o)
            return SymInt(z3.BitVecVal(o, W), o, o)
        return None

    def _bin(self, o, zf, lof):
        o = SymInt.lift(o)
        if o is None:
            return NotImplemented
        lo, hi = lof(self.rng(), o.rng())
        return SymInt(zf(self.e, o.e), lo, hi)

    def __add__(self, o):
        return self._bin(o, lambda a, b: a + b, lambda a, b: (a[0] + b[0], a[1] + b[1]))
    __radd__ = __add__

    def __sub__(self, o):
        return self._bin(o, lambda a, b: a - b, lambda a, b: (a[0] - b[1], a[1] - b[0]))

    def __rsub__(self, o):
        return SymInt.lift(o).__sub__(self)

    def __mul__(self, o):
        def rng(a, b):
            c = [a[0] * b[0], a[0] * b[1], a[1] * b[0], a[1] * b[1]]
            return min(c), max(c)
        return self._bin(o, lambda a, b: a * b, rng)
    __rmul__ = __mul__

    def __lshift__(self, o):
        if isinstance(o, SymInt):
            o = o.__index__()
        lo, hi = self.rng()
        return SymInt(self.e << o, lo << o, hi << o)

    def __rshift__(self, o):
        if isinstance(o, SymInt):
            o = o.__index__()
        lo, hi = self.rng()
        return SymInt(self.e >> o, lo >> o, hi >> o)

    def _bitrng(self, a, b):
        n = max(_bits(*a), _bits(*b))
        return -(1 << n), (1 << n) - 1

    def __and__(self, o):
        o = SymInt.lift(o)
        if o is None:
            return NotImplemented
        a, b = self.rng(), o.rng()
        if b[0] >= 0:
            lo, hi = 0, b[1]
        elif a[0] >= 0:
            lo, hi = 0, a[1]
        else:
            lo, hi = self._bitrng(a, b)
        return SymInt(self.e & o.e, lo, hi)
    __rand__ = __and__

    def __or__(self, o):
        o = SymInt.lift(o)
        if o is None:
            return NotImplemented
        a, b = self.rng(), o.rng()
        lo, hi = self._bitrng(a, b)
        if a[0] >= 0 and b[0] >= 0:
            lo = 0
        return SymInt(self.e | o.e, lo, hi)
    __ror__ = __or__

    def _cmp(self, o, op):
        o2 = SymInt.lift(o)
        if o2 is None:
            return NotImplemented
        a, b = self.rng(), o2.rng()
        # static decisions
        if op == '<':
            if a[1] < b[0]: return True
            if a[0] >= b[1]: return False
            e = self.e < o2.e
        elif op == '<=':
            if a[1] <= b[0]: return True
            if a[0] > b[1]: return False
            e = self.e <= o2.e
        elif op == '>':
            if a[0] > b[1]: return True
            if a[1] <= b[0]: return False
            e = self.e > o2.e
        elif op == '>=':
            if a[0] >= b[1]: return True
            if a[1] < b[0]: return False
            e = self.e >= o2.e
        elif op == '==':
            if a[1] < b[0] or a[0] > b[1]: return False
            if a[0] == a[1] == b[0] == b[1]: return True
            e = self.e == o2.e
        else:
            if a[1] < b[0] or a[0] > b[1]: return True
            if a[0] == a[1] == b[0] == b[1]: return False
            e = self.e != o2.e
        refine = None
        if b[0] == b[1]:   # compare against a constant: refinable
            c = b[0]
            k = self.id
            if op == '<':   refine = ((k, (a[0], c - 1)), (k, (c, a[1])))
            elif op == '<=': refine = ((k, (a[0], c)), (k, (c + 1, a[1])))
            elif op == '>':  refine = ((k, (c + 1, a[1])), (k, (a[0], c)))
            elif op == '>=': refine = ((k, (c, a[1])), (k, (a[0], c - 1)))
            elif op == '==': refine = ((k, (c, c)), None)
            else: refine = (None, (k, (c, c)))
        elif a[0] == a[1]:
            c = a[0]
            k = o2.id
            if op == '<':   refine = ((k, (c + 1, b[1])), (k, (b[0], c)))
            elif op == '<=': refine = ((k, (c, b[1])), (k, (b[0], c - 1)))
            elif op == '>':  refine = ((k, (b[0], c - 1)), (k, (c, b[1])))
            elif op == '>=': refine = ((k, (b[0], c)), (k, (c + 1, b[1])))
            elif op == '==': refine = ((k, (c, c)), None)
            else: refine = (None, (k, (c, c)))
        return SymBool(e, refine)

    def __lt__(self, o): return self._cmp(o, '<')
    def __le__(self, o): return self._cmp(o, '<=')
    def __gt__(self, o): return self._cmp(o, '>')
    def __ge__(self, o): return self._cmp(o, '>=')

    def __eq__(self, o):
        r = self._cmp(o, '==')
        return False if r is NotImplemented else r

    def __ne__(self, o):
        r = self._cmp(o, '!=')
        return True if r is NotImplemented else r

    def __bool__(self):
        return bool(self != 0)

    def __hash__(self):
        return hash(self.__index__())

    def __index__(self):
        lo, hi = self.rng()
        if lo == hi:
            return lo
        n = 0
        while True:
            if CUR.replaying():
                v = CUR.trail[CUR.pos][3]
            else:
                v = CUR.get_model().eval(self.e, model_completion=True).as_signed_long()
            if CUR.fork(self.e == v, aux=v, refine=((self.id, (v, v)), None)):
                return v
            n += 1
            if n > 300:
                raise Unmodelled('realisation fan-out')
    __int__ = __index__

    def __repr__(self):
        return f'Sym({self.e})'


numbers.Integral.register(SymInt)


class LookupProxy:
    """dict/set proxy: symbolic int key resolved by bisection over runs of keys
    mapping to the same value object."""
    def __init__(self, d):
        self.d = d
        isset = not hasattr(d, 'keys')
        keys = sorted(k for k in d if isinstance(k, int))
        runs = []
        for k in keys:
            v = True if isset else d[k]
            if runs and runs[-1][1] == k - 1 and runs[-1][2] is v:
                runs[-1][1] = k
            else:
                runs.append([k, k, v])
        self.runs = runs

    def _find(self, key):
        if not isinstance(key, SymInt):
            if key in self.d:
                return True, (True if not hasattr(self.d, 'keys') else self.d[key])
            return False, None
        runs = self.runs
        lo, hi = 0, len(runs)          # candidate runs [lo,hi)
        while hi - lo > 0:
            mid = (lo + hi) // 2
            # is key < runs[mid].start ?
            if key < runs[mid][0]:
                hi = mid
            elif key <= runs[mid][1]:
                return True, runs[mid][2]
            else:
                lo = mid + 1
        return False, None

    def __getitem__(self, key):
        ok, v = self._find(key)
        if not ok:
            raise KeyError(key)
        return v

    def __contains__(self, key):
        return self._find(key)[0]

    def get(self, key, default=None):
        ok, v = self._find(key)
        return v if ok else default

    def __iter__(self):
        return iter(self.d)

    def __len__(self):
        return len(self.d)
