import time, sys
import pysym
from pysym import Explorer, SymInt, SymLookup, SymSet
import mido
from mido.messages import decode, encode, checks, messages
from mido import tokenizer, Message
import mido.messages.specs as specs

# install lookup proxies (tables themselves come from the real module)
decode.SPEC_BY_STATUS = SymLookup(specs.SPEC_BY_STATUS)
decode._SPECIAL_CASES = SymLookup(decode._SPECIAL_CASES)
decode.CHANNEL_MESSAGES = SymSet(specs.CHANNEL_MESSAGES)
tokenizer.SPEC_BY_STATUS = SymLookup(specs.SPEC_BY_STATUS)

def h_pitch(cx):
    ch = cx.fresh_int('ch', -2**40, 2**40); p = cx.fresh_int('p', -2**40, 2**40)
    try:
        m = Message('pitchwheel', channel=ch, pitch=p)
    except (ValueError, TypeError):
        cx.check((ch < 0) | (ch > 15) | (p < -8192) | (p > 8191), 'reject-only-out-of-range')
        return
    cx.check((ch >= 0) & (ch <= 15) & (p >= -8192) & (p <= 8191), 'accept-only-in-range')
    b = m.bytes()
    cx.check(len(b) == 3 and (b[0] == (0xe0 + ch)) & (b[1] + 128 * b[2] - 8192 == p) & (b[1] >= 0) & (b[1] < 128) & (b[2] >= 0) & (b[2] < 128), 'layout')
    m2 = Message.from_bytes(b)
    cx.check((m2.pitch == p) & (m2.channel == ch), 'roundtrip')

ex = Explorer(); t = time.time(); st = ex.explore(h_pitch); print('pitch', st, round(time.time()-t,2), ex.violations[:3])

def mk_frombytes(n):
    def h(cx):
        bs = [cx.fresh_int(f'b{i}', -2**33, 2**33) for i in range(n)]
        try:
            m = Message.from_bytes(list(bs))
        except ValueError:
            return
        except Exception as e:
            cx.check(False, 'wrong exception %s' % type(e).__name__)
            return
        out = m.bytes()
        ok = len(out) == n
        if ok:
            c = True
            for x, y in zip(out, bs):
                c = (x == y) & c if c is not True else (x == y)
            cx.check(c, 'bytes reproduce input')
        else:
            cx.check(False, 'length differs %d vs %d' % (len(out), n))
    return h

for n in range(0, 5):
    ex = Explorer(); t = time.time(); st = ex.explore(mk_frombytes(n))
    print('from_bytes', n, st, round(time.time()-t,2), ex.violations[:4]); sys.stdout.flush()
