import time, sys
import pysym
from pysym import Explorer, SymInt, SymLookup, SymSet
import mido
from mido.messages import decode, encode, checks, messages
from mido import tokenizer, Message, Parser
import mido.messages.specs as specs
decode.SPEC_BY_STATUS = SymLookup(specs.SPEC_BY_STATUS)
decode._SPECIAL_CASES = SymLookup(decode._SPECIAL_CASES)
decode.CHANNEL_MESSAGES = SymSet(specs.CHANNEL_MESSAGES)
tokenizer.SPEC_BY_STATUS = SymLookup(specs.SPEC_BY_STATUS)

def mk(n):
    def h(cx):
        bs = [cx.fresh_int(f'b{i}', 0, 255) for i in range(n)]
        p = Parser()
        try:
            p.feed(bs)
        except Exception as e:
            cx.check(False, 'raised %s' % type(e).__name__); return
        msgs = list(p)
        for m in msgs:
            b = m.bytes()
            c = None
            for x in b:
                t = (x >= 0) & (x <= 255) if isinstance(x, SymInt) else (0 <= x <= 255)
                if t is not True:
                    c = t if c is None else (c & t)
            if c is not None: cx.check(c, 'valid')
    return h
for n in range(1, 5):
    ex = Explorer(); t = time.time(); st = ex.explore(mk(n))
    print('parser', n, st, round(time.time()-t,2), ex.violations[:4]); sys.stdout.flush()
