from mido.messages.messages import Message
from mido.messages.encode import encode_message
from mido.messages.decode import decode_message

def pw_roundtrip(channel: int, pitch: int) -> bool:
    """
    pre: 0 <= channel <= 15
    pre: -8192 <= pitch <= 8191
    post: _
    """
    m = {'type': 'pitchwheel', 'time': 0, 'channel': channel, 'pitch': pitch}
    b = encode_message(m)
    ok = len(b) == 3 and b[0] == (0xe0 | channel) and 0 <= b[1] < 128 and 0 <= b[2] < 128
    ok = ok and (b[1] + 128 * b[2] - 8192 == pitch)
    d = decode_message(b)
    return ok and d == m

def pw_msg(channel: int, pitch: int) -> bool:
    """
    pre: 0 <= channel <= 15
    pre: -8192 <= pitch <= 8191
    post: _
    """
    m = Message('pitchwheel', channel=channel, pitch=pitch)
    b = m.bytes()
    m2 = Message.from_bytes(b)
    return m2 == m and len(m) == len(b)

def witness(channel: int, pitch: int) -> bool:
    """
    pre: 0 <= channel <= 15
    pre: -8192 <= pitch <= 8191
    post: False
    """
    m = Message('pitchwheel', channel=channel, pitch=pitch)
    b = m.bytes()
    return True
