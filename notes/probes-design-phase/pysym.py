"""Prototype: symbolic execution of real Python code through proxy ints (BV backed),
exhaustive DFS over fork decisions, z3 decides feasibility + final assertions."""
import z3, time, numbers, sys

W = 64


class Unmodelled(Exception):
    pass


class PathAbort(BaseException):
    pass


# simpler implementation: store conds alongside trail
class Explorer:
    def __init__(self, timeout_ms=30000):
        self.solver = z3.Solver()
        self.solver.set('timeout', timeout_ms)
        self.trail = []   # entries: [cond, decision, exhausted]
        self.pos = 0
        self.stats = dict(paths=0, queries=0, solver_s=0.0, forks=0, violations=0, checks=0)
        self.inputs = {}
        self.violations = []

    def _sat(self, *extra):
        t = time.time()
        self.stats['queries'] += 1
        r = self.solver.check(*extra)
        self.stats['solver_s'] += time.time() - t
        if r == z3.unknown:
            raise Unmodelled('solver unknown')
        return r == z3.sat

    def fresh_int(self, name, lo, hi):
        v = z3.BitVec(name, W)
        if name not in self.inputs:
            self.inputs[name] = v
        return SymInt(v, lo, hi, constrain=True)

    def replaying(self):
        return self.pos < len(self.trail)

    def fork(self, cond, aux=None):
        cond = z3.simplify(cond)
        if z3.is_true(cond):
            return True
        if z3.is_false(cond):
            return False
        if self.pos < len(self.trail):
            e = self.trail[self.pos]
            self.pos += 1
            return e[1]
        self.stats['forks'] += 1
        can_t = self._sat(cond)
        can_f = self._sat(z3.Not(cond)) if can_t else True
        if not can_t and not can_f:
            raise PathAbort()
        if can_t:
            e = [cond, True, not can_f, aux]
        else:
            e = [cond, False, True, aux]
        self.trail.append(e)
        self.solver.push()
        self.solver.add(cond if e[1] else z3.Not(cond))
        self.pos += 1
        return e[1]

    def assume(self, cond):
        # assumption = fork where only True side is explored
        if isinstance(cond, SymBool):
            cond = cond.e
        elif isinstance(cond, bool):
            if not cond:
                raise PathAbort()
            return
        if self.pos < len(self.trail):
            self.pos += 1
            return
        if not self._sat(cond):
            raise PathAbort()
        self.trail.append([cond, True, True, None])
        self.solver.push(); self.solver.add(cond)
        self.pos += 1

    def check(self, cond, label=''):
        """Assert cond holds for ALL values on this path."""
        self.stats['checks'] += 1
        if isinstance(cond, bool):
            if not cond:
                ok = False
                m = self.model()
            else:
                return True
        else:
            e = cond.e if isinstance(cond, SymBool) else cond
            if self._sat(z3.Not(e)):
                ok = False
                m = self.solver.model()
                m = {k: m.eval(v, model_completion=True).as_signed_long() for k, v in self.inputs.items()}
            else:
                return True
        self.stats['violations'] += 1
        self.violations.append((label, m))
        return False

    def model(self):
        assert self._sat()
        m = self.solver.model()
        return {k: m.eval(v, model_completion=True).as_signed_long() for k, v in self.inputs.items()}

    def explore(self, fn, max_paths=10**7):
        global CUR
        while self.stats['paths'] < max_paths:
            self.pos = 0
            self.stats['paths'] += 1
            CUR = self
            try:
                fn(self)
            except PathAbort:
                pass
            finally:
                CUR = None
            while self.trail and self.trail[-1][2]:
                self.trail.pop(); self.solver.pop()
            if not self.trail:
                break
            e = self.trail[-1]
            self.solver.pop()
            e[1] = not e[1]; e[2] = True
            self.solver.push()
            self.solver.add(e[0] if e[1] else z3.Not(e[0]))
        return self.stats


CUR = None


def _bits(lo, hi):
    return max(abs(lo), abs(hi)).bit_length() + 1


class SymBool:
    __slots__ = ('e',)

    def __init__(self, e):
        self.e = e

    def __bool__(self):
        return CUR.fork(self.e)

    def __and__(self, o):
        return SymBool(z3.And(self.e, _tob(o)))

    def __or__(self, o):
        return SymBool(z3.Or(self.e, _tob(o)))

    def __invert__(self):
        return SymBool(z3.Not(self.e))


def _tob(o):
    if isinstance(o, SymBool):
        return o.e
    return z3.BoolVal(bool(o))


class SymInt:
    __slots__ = ('e', 'lo', 'hi')

    def __init__(self, e, lo, hi, constrain=False):
        if _bits(lo, hi) > W - 1:
            raise Unmodelled(f'magnitude bound exceeded {lo} {hi}')
        self.e = e
        self.lo = lo
        self.hi = hi
        if constrain:
            CUR.assume(z3.And(e >= lo, e <= hi))

    @staticmethod
    def lift(o):
        if isinstance(o, SymInt):
            return o
        if isinstance(o, bool):
            o = int(o)
        if isinstance(o, int):
            return SymInt(z3.BitVecVal(o, W), o, o)
        return None

    def _bin(self, o, zf, lof):
        o = SymInt.lift(o)
        if o is None:
            return NotImplemented
        lo, hi = lof(self, o)
        return SymInt(zf(self.e, o.e), lo, hi)

    def __add__(self, o):
        return self._bin(o, lambda a, b: a + b, lambda a, b: (a.lo + b.lo, a.hi + b.hi))
    __radd__ = __add__

    def __sub__(self, o):
        return self._bin(o, lambda a, b: a - b, lambda a, b: (a.lo - b.hi, a.hi - b.lo))

    def __rsub__(self, o):
        return SymInt.lift(o).__sub__(self)

    def __mul__(self, o):
        def rng(a, b):
            c = [a.lo * b.lo, a.lo * b.hi, a.hi * b.lo, a.hi * b.hi]
            return min(c), max(c)
        return self._bin(o, lambda a, b: a * b, rng)
    __rmul__ = __mul__

    def __neg__(self):
        return SymInt(-self.e, -self.hi, -self.lo)

    def __lshift__(self, o):
        if isinstance(o, SymInt):
            o = o.__index__()
        return SymInt(self.e << o, self.lo << o, self.hi << o)

    def __rshift__(self, o):
        if isinstance(o, SymInt):
            o = o.__index__()
        return SymInt(self.e >> o, self.lo >> o, self.hi >> o)

    def _bitrng(self, o):
        b = max(_bits(self.lo, self.hi), _bits(o.lo, o.hi))
        return -(1 << b), (1 << b) - 1

    def __and__(self, o):
        o = SymInt.lift(o)
        if o is None:
            return NotImplemented
        if o.lo >= 0:
            lo, hi = 0, o.hi
        elif self.lo >= 0:
            lo, hi = 0, self.hi
        else:
            lo, hi = self._bitrng(o)
        return SymInt(self.e & o.e, lo, hi)
    __rand__ = __and__

    def __or__(self, o):
        o = SymInt.lift(o)
        if o is None:
            return NotImplemented
        lo, hi = self._bitrng(o)
        if self.lo >= 0 and o.lo >= 0:
            lo = 0
        return SymInt(self.e | o.e, lo, hi)
    __ror__ = __or__

    def __xor__(self, o):
        o = SymInt.lift(o)
        if o is None:
            return NotImplemented
        lo, hi = self._bitrng(o)
        return SymInt(self.e ^ o.e, lo, hi)
    __rxor__ = __xor__

    def __invert__(self):
        return SymInt(~self.e, ~self.hi, ~self.lo)

    def _cmp(self, o, f):
        o2 = SymInt.lift(o)
        if o2 is None:
            return NotImplemented
        return SymBool(f(self.e, o2.e))

    def __lt__(self, o): return self._cmp(o, lambda a, b: a < b)
    def __le__(self, o): return self._cmp(o, lambda a, b: a <= b)
    def __gt__(self, o): return self._cmp(o, lambda a, b: a > b)
    def __ge__(self, o): return self._cmp(o, lambda a, b: a >= b)

    def __eq__(self, o):
        o2 = SymInt.lift(o)
        if o2 is None:
            return False
        return SymBool(self.e == o2.e)

    def __ne__(self, o):
        o2 = SymInt.lift(o)
        if o2 is None:
            return True
        return SymBool(self.e != o2.e)

    def __bool__(self):
        return CUR.fork(self.e != 0)

    def __hash__(self):
        return hash(self.__index__())

    def __index__(self):
        # concretise by forking over feasible values
        e = z3.simplify(self.e)
        if z3.is_bv_value(e):
            return e.as_signed_long()
        n = 0
        while True:
            if CUR.replaying():
                v = CUR.trail[CUR.pos][3]
            else:
                assert CUR._sat()
                v = CUR.solver.model().eval(self.e, model_completion=True).as_signed_long()
            if CUR.fork(self.e == v, aux=v):
                return v
            n += 1
            if n > 300:
                raise Unmodelled('realisation fan-out')
    __int__ = __index__

    def __repr__(self):
        return f'Sym({z3.simplify(self.e)})'


def _eqval(c):
    return c.arg(1).as_signed_long()


numbers.Integral.register(SymInt)


class SymLookup:
    """dict proxy for symbolic int keys: forks over groups of keys sharing a value."""
    def __init__(self, d):
        self.d = d
        groups = {}
        for k, v in d.items():
            groups.setdefault(id(v), (v, []))[1].append(k)
        self.groups = list(groups.values())

    def _find(self, key):
        if not isinstance(key, SymInt):
            return (True, self.d[key]) if key in self.d else (False, None)
        for v, ks in self.groups:
            ints = [k for k in ks if isinstance(k, int)]
            if not ints:
                continue
            c = z3.Or([key.e == k for k in ints])
            if CUR.fork(c):
                return True, v
        return False, None

    def __getitem__(self, key):
        ok, v = self._find(key)
        if not ok:
            raise KeyError(key)
        return v

    def __contains__(self, key):
        return self._find(key)[0]

    def get(self, key, default=None):
        ok, v = self._find(key)
        return v if ok else default


class SymSet:
    def __init__(self, s):
        self.s = s

    def __contains__(self, key):
        if not isinstance(key, SymInt):
            return key in self.s
        return CUR.fork(z3.Or([key.e == k for k in self.s]))
