import time, sys, re
import pysym2 as ps, z3
from pysym2 import Explorer, SymInt
import mido
from mido import Message, MidiTrack, MetaMessage
from mido.messages import strings, messages
import builtins

TOK = {}
def tok(s):
    k = '%d' % s.id
    TOK[k] = s
    return k
SymInt.__str__ = lambda self: tok(self)
SymInt.__repr__ = lambda self: tok(self)
SymInt.__format__ = lambda self, spec: tok(self) if spec in ('', 'd') else (_ for _ in ()).throw(ps.Unmodelled('format ' + spec))
_TOKRE = re.compile('\\d+')
def sym_int(x, *a):
    if isinstance(x, str):
        if x in TOK: return TOK[x]
        if _TOKRE.search(x): raise ps.Unmodelled('token glued to text: %r' % x)
    return builtins.int(x, *a)
strings.int = sym_int

def eval_repr(text):
    ns = {'Message': Message, 'MetaMessage': MetaMessage, 'MidiTrack': MidiTrack}
    text = _TOKRE.sub(lambda m: '_T[%r]' % m.group(0), text)
    ns['_T'] = TOK
    return eval(text, ns)

def h(cx):
    m = Message('pitchwheel', channel=cx.fresh_int('ch', 0, 15), pitch=cx.fresh_int('p', -8192, 8191), time=cx.fresh_int('t', -2**40, 2**40))
    s = str(m)
    cx.check(Message.from_str(s) == m, 'from_str(str(m))')
    cx.check(eval_repr(repr(m)) == m, 'eval(repr(m))')
    cx.check(Message.from_dict(m.dict()) == m, 'dict')
    for L in range(0, 3):
        sx = Message('sysex', data=[cx.fresh_int(f'd{L}_{i}', 0, 127) for i in range(L)])
        try:
            r = Message.from_str(str(sx))
        except Exception as e:
            cx.check(False, 'sysex L=%d: %s: %s' % (L, type(e).__name__, e)); continue
        cx.check(r == sx, 'sysex L=%d' % L)
    for L in range(0, 3):
        tr = MidiTrack([Message('note_on', note=cx.fresh_int(f'n{L}_{i}', 0, 127)) for i in range(L)])
        try:
            r = eval_repr(repr(tr))
        except Exception as e:
            cx.check(False, 'track L=%d: %s' % (L, type(e).__name__)); continue
        cx.check(r == tr, 'track L=%d' % L)
ex = Explorer(); t = time.time(); st = ex.explore(h)
print('text', {k: st[k] for k in ('paths','queries','forks','violations')}, round(time.time()-t,2))
for v in ex.violations: print('  ', v[0])
