import z3, time
from fractions import Fraction
def run(rounding, n=3, wrong=False):
    u = z3.RealVal(Fraction(1, 2**53))
    tpb = z3.Int('tpb'); d = [z3.Int(f'd{i}') for i in range(n)]; T = [z3.Int(f'T{i}') for i in range(n)]
    s = z3.Solver(); s.set('timeout', 120000)
    s.add(tpb >= 1, tpb <= 32767)
    for x in d: s.add(x >= 0, x <= 2**28)
    for x in T: s.add(x >= 1, x < 2**24)
    k = [0]
    def fl(x):
        if not rounding: return x
        k[0] += 1; dl = z3.Real(f'e{k[0]}'); s.add(dl >= -u, dl <= u); return x * (1 + dl)
    c = fl(z3.RealVal(Fraction(1, 10**6)))   # the literal 1e-6
    total = z3.RealVal(0); exact = z3.RealVal(0)
    for i in range(n):
        tempo = T[i-1] if (wrong and i > 0) else T[i]   # 'wrong': tempo applied one event late
        scale = fl(fl(z3.ToReal(tempo) * c) / z3.ToReal(tpb))
        delta = z3.If(d[i] > 0, fl(z3.ToReal(d[i]) * scale), 0)
        total = fl(total + delta)
        exact = exact + z3.ToReal(d[i]) * z3.ToReal(T[i]) / (z3.ToReal(tpb) * 10**6)
    if rounding:
        tol = z3.RealVal(Fraction(4 * n + 4, 2**53))
        s.add(z3.Or(total - exact > tol * exact, exact - total > tol * exact))
    else:
        s.add(total != exact)
    t = time.time(); r = s.check(); return r, round(time.time() - t, 2)
for rounding in (False, True):
    for n in (2, 3, 4):
        print('rounding', rounding, 'n', n, run(rounding, n), 'mutant:', run(rounding, n, wrong=True))
