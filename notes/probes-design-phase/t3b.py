import time, sys
import pysym2 as ps, z3
from pysym2 import Explorer, SymInt, SymBool, LookupProxy
import mido
from mido.messages import decode
from mido import Message, MidiFile, MidiTrack, MetaMessage
from mido.midifiles import midifiles as mf, meta
import mido.messages.specs as specs
decode.SPEC_BY_STATUS = LookupProxy(specs.SPEC_BY_STATUS)
decode._SPECIAL_CASES = LookupProxy(decode._SPECIAL_CASES)
decode.CHANNEL_MESSAGES = LookupProxy(specs.CHANNEL_MESSAGES)
mf.SPEC_BY_STATUS = LookupProxy(specs.SPEC_BY_STATUS)
meta._META_SPECS = LookupProxy(meta._META_SPECS)

class SymByteArray(list):
    def _chk(self, b):
        if not (0 <= b <= 255): raise ValueError('byte must be in range(0, 256)')
        return b
    def __init__(self, it=()): list.__init__(self, [self._chk(b) for b in it])
    def append(self, b): list.append(self, self._chk(b))
    def extend(self, it): list.extend(self, [self._chk(b) for b in it])
class SymBytes(list):
    def __eq__(self, o):
        if isinstance(o, (bytes, bytearray)): return len(o) == len(self) and list.__eq__(self, list(o))
        return list.__eq__(self, o)
class SymFile:
    def __init__(self, data=None): self.data = list(data or []); self.pos = 0
    def write(self, b): self.data.extend(list(b))
    def read(self, n):
        r = self.data[self.pos:self.pos+n]; self.pos += len(r)
        if all(type(x) is int for x in r): return bytes(r)
        return SymBytes(r)
    def tell(self): return self.pos
def sym_ord(b):
    if isinstance(b, SymBytes): return b[0]
    return ord(b)
mf.bytearray = SymByteArray
mf.ord = sym_ord

def mk(wide):
    def h(cx):
        R = lambda i: (2**28-1) if i in wide else 127
        m1 = Message('note_on', channel=cx.fresh_int('c1',0,15), note=cx.fresh_int('n1',0,127), velocity=cx.fresh_int('v1',0,127), time=cx.fresh_int('t1',0,R(1)))
        m2 = Message('note_on', channel=cx.fresh_int('c2',0,15), note=cx.fresh_int('n2',0,127), velocity=cx.fresh_int('v2',0,127), time=cx.fresh_int('t2',0,R(2)))
        m3 = MetaMessage('set_tempo', tempo=cx.fresh_int('tempo',0,2**24-1), time=cx.fresh_int('t3',0,R(3)))
        m4 = Message('sysex', data=[cx.fresh_int('d0',0,127), cx.fresh_int('d1',0,127)], time=cx.fresh_int('t4',0,R(4)))
        m5 = Message('pitchwheel', channel=cx.fresh_int('c5',0,15), pitch=cx.fresh_int('p5',-8192,8191), time=cx.fresh_int('t5',0,R(5)))
        tr = MidiTrack([m1, m2, m3, m4, m5])
        f = MidiFile(type=1, ticks_per_beat=480, tracks=[tr])
        out = SymFile(); f.save(file=out)
        g = MidiFile(file=SymFile(out.data))
        t2 = g.tracks[0]
        if len(t2) != 6: cx.check(False, 'len %d' % len(t2)); return
        for a, b in zip(tr, t2):
            cx.check(a == b, 'msg eq %s' % a.type)
    return h
for wide in [(1,), (1,2), (1,2,3,4,5)]:
    ex = Explorer(); t = time.time(); st = ex.explore(mk(wide))
    print('file wide=', wide, st, round(time.time()-t,2), ex.violations[:4]); sys.stdout.flush()
