"""Probe: real threads, line-level deterministic scheduler, schedule = symbolic ints forked by Explorer."""
import sys, threading, time
import pysym2 as ps
from pysym2 import Explorer, SymInt
import mido, mido.ports as ports
from mido import Message

_real_threading = threading
TRACED = {ports.__file__}

class Deadlock(Exception): pass

class Sched:
    def __init__(self, cx, max_preempt, max_steps=400):
        self.cx = cx; self.max_preempt = max_preempt; self.max_steps = max_steps
        self.threads = []      # dicts
        self.ctrl = _real_threading.Semaphore(0)
        self.cur = None
        self.preempts = 0; self.nchoice = 0; self.steps = 0
        self.trace = []
    def spawn(self, fn, name):
        t = dict(name=name, fn=fn, sem=_real_threading.Semaphore(0), state='ready', blocked_on=None, exc=None, result=None, tid=len(self.threads))
        self.threads.append(t); return t
    def me(self):
        return getattr(_local, 't', None)
    # called from worker threads
    def yield_point(self, why='line'):
        t = self.me()
        if t is None: return
        self.ctrl.release()
        t['sem'].acquire()
    def _runner(self, t):
        _local.t = t
        t['sem'].acquire()
        sys.settrace(self._tracer)
        try:
            t['result'] = t['fn']()
        except BaseException as e:
            t['exc'] = e
        finally:
            sys.settrace(None)
            t['state'] = 'done'
            self.ctrl.release()
    def _tracer(self, frame, event, arg):
        if frame.f_code.co_filename in TRACED:
            return self._ltrace
        return None
    def _ltrace(self, frame, event, arg):
        if event == 'line':
            self.yield_point()
        return self._ltrace
    def enabled(self):
        return [t for t in self.threads if t['state'] == 'ready' and (t['blocked_on'] is None or t['blocked_on'].owner is None)]
    def choose(self, opts):
        if len(opts) == 1: return opts[0]
        s = self.cx.fresh_int(f'sched{self.nchoice}', 0, len(opts) - 1); self.nchoice += 1
        return opts[s.__index__()]
    def run(self):
        ths = []
        for t in self.threads:
            th = _real_threading.Thread(target=self._runner, args=(t,), daemon=True); th.start(); ths.append(th)
        try:
            while True:
                en = self.enabled()
                if not en:
                    if all(t['state'] == 'done' for t in self.threads): break
                    raise Deadlock()
                if self.cur is not None and self.cur in en:
                    if self.preempts < self.max_preempt and len(en) > 1:
                        nxt = self.choose([self.cur] + [t for t in en if t is not self.cur])
                        if nxt is not self.cur: self.preempts += 1
                    else:
                        nxt = self.cur
                else:
                    nxt = self.choose(en)
                self.cur = nxt
                self.steps += 1
                if self.steps > self.max_steps: raise Deadlock('step budget')
                self.trace.append(nxt['tid'])
                nxt['sem'].release()
                self.ctrl.acquire()
        finally:
            # release stuck threads
            for t in self.threads:
                if t['state'] != 'done':
                    t['kill'] = True
_local = _real_threading.local()
SCHED = None

class CoopRLock:
    def __init__(self): self.owner = None; self.count = 0
    def acquire(self):
        me = SCHED.me() if SCHED else None
        if me is None:
            self.owner = 'main'; self.count += 1; return
        while self.owner is not None and self.owner is not me:
            me['blocked_on'] = self
            SCHED.yield_point('lock')
        me['blocked_on'] = None
        self.owner = me; self.count += 1
    def release(self):
        self.count -= 1
        if self.count == 0: self.owner = None
    def __enter__(self): self.acquire(); return self
    def __exit__(self, *a): self.release(); return False

class FakeThreading:
    RLock = CoopRLock
ports.threading = FakeThreading

def h(cx, kind, max_preempt):
    global SCHED
    S = SCHED = Sched(cx, max_preempt)
    note = cx.fresh_int('note', 0, 127)
    if kind == 'io':
        inner = ports.EchoPort(); port = ports.IOPort(inner, inner)
    else:
        port = ports.EchoPort()
    port.send(Message('note_on', note=note))
    S.spawn(lambda: port.poll(), 'r1'); S.spawn(lambda: port.poll(), 'r2')
    S.run()
    excs = [t['exc'] for t in S.threads if t['exc'] is not None]
    if excs:
        cx.check(False, 'raised %r sched=%s' % (excs[0], S.trace)); return
    got = [t['result'] for t in S.threads if t['result'] is not None]
    if len(got) != 1: cx.check(False, 'received %d times' % len(got)); return
    cx.check(got[0].note == note, 'content')

for kind in ['echo', 'io']:
    for p in [0, 1, 2]:
        ex = Explorer(); t = time.time(); st = ex.explore(lambda cx: h(cx, kind, p))
        print(kind, 'preempt<=', p, {k: st[k] for k in ('paths','queries','forks','violations')}, round(time.time()-t,2), ex.violations[:1]); sys.stdout.flush()
