from mido.sockets import parse_address

def fmt(host, portno):
    return f'{host}:{portno:d}'

def addr_inverse(host: str, port: int) -> bool:
    """
    pre: len(host) <= 3 and ':' not in host
    pre: 0 < port < 65536
    post: _
    """
    return parse_address(fmt(host, port)) == (host, port)

def parse_addr_total(text: str) -> bool:
    """
    pre: len(text) <= 3
    post: True
    raises: ValueError
    """
    parse_address(text)
    return True
