import time, sys
import pysym2 as ps
from pysym2 import Explorer, SymInt, LookupProxy
import mido
from mido.messages import decode, encode, checks, messages
from mido import tokenizer, Message, Parser
import mido.messages.specs as specs
decode.SPEC_BY_STATUS = LookupProxy(specs.SPEC_BY_STATUS)
decode._SPECIAL_CASES = LookupProxy(decode._SPECIAL_CASES)
decode.CHANNEL_MESSAGES = LookupProxy(specs.CHANNEL_MESSAGES)
tokenizer.SPEC_BY_STATUS = LookupProxy(specs.SPEC_BY_STATUS)

def mk(n):
    def h(cx):
        bs = [cx.fresh_int(f'b{i}', 0, 255) for i in range(n)]
        p = Parser()
        try:
            p.feed(bs)
        except Exception as e:
            cx.check(False, 'raised %s' % type(e).__name__); return
        msgs = list(p)
        for m in msgs:
            b = m.bytes()
            c = True
            for x in b:
                c = c & (x >= 0) & (x <= 255)
            cx.check(c, 'valid')
    return h
for n in range(1, 4):
    ex = Explorer(); t = time.time(); st = ex.explore(mk(n))
    print('parser', n, st, round(time.time()-t,2), 'ms/path', round(1000*(time.time()-t)/st['paths'],2), ex.violations[:4]); sys.stdout.flush()

def mk_frombytes(n):
    def h(cx):
        bs = [cx.fresh_int(f'b{i}', -2**33, 2**33) for i in range(n)]
        try:
            m = Message.from_bytes(list(bs))
        except ValueError:
            return
        except Exception as e:
            cx.check(False, 'wrong exception %s' % type(e).__name__); return
        out = m.bytes()
        if len(out) != n:
            cx.check(False, 'length differs %d vs %d' % (len(out), n)); return
        c = True
        for x, y in zip(out, bs): c = c & (x == y)
        cx.check(c, 'bytes reproduce input')
    return h
for n in range(0, 5):
    ex = Explorer(); t = time.time(); st = ex.explore(mk_frombytes(n))
    print('from_bytes', n, st, round(time.time()-t,2), ex.violations[:4]); sys.stdout.flush()
