import time, sys, io
import pysym, z3
from pysym import Explorer, SymInt, SymBool, SymLookup, SymSet
import mido
from mido.messages import decode, encode, checks, messages
from mido import tokenizer, Message, Parser, MidiFile, MidiTrack, MetaMessage
from mido.midifiles import midifiles as mf, meta
import mido.messages.specs as specs
decode.SPEC_BY_STATUS = SymLookup(specs.SPEC_BY_STATUS)
decode._SPECIAL_CASES = SymLookup(decode._SPECIAL_CASES)
decode.CHANNEL_MESSAGES = SymSet(specs.CHANNEL_MESSAGES)
mf.SPEC_BY_STATUS = SymLookup(specs.SPEC_BY_STATUS)
meta._META_SPECS = SymLookup(meta._META_SPECS)

class SymByteArray(list):
    def _chk(self, b):
        if isinstance(b, SymInt):
            if not ((b >= 0) & (b <= 255)): raise ValueError('byte must be in range(0, 256)')
        elif not 0 <= b <= 255: raise ValueError('byte must be in range(0, 256)')
        return b
    def __init__(self, it=()):
        list.__init__(self, [self._chk(b) for b in it])
    def append(self, b): list.append(self, self._chk(b))
    def extend(self, it): list.extend(self, [self._chk(b) for b in it])

class SymFile:
    def __init__(self, data=None): self.data = list(data or []); self.pos = 0
    def write(self, b): self.data.extend(list(b))
    def read(self, n):
        r = self.data[self.pos:self.pos+n]; self.pos += len(r)
        if all(isinstance(x, int) for x in r): return bytes(r)
        return SymBytes(r)
    def tell(self): return self.pos
class SymBytes(list):
    def __eq__(self, o):
        if isinstance(o, (bytes, bytearray)): 
            if len(o) != len(self): return False
            return list.__eq__(self, list(o))
        return list.__eq__(self, o)
def sym_ord(b):
    if isinstance(b, SymBytes):
        assert len(b) == 1; return b[0]
    return ord(b)
mf.bytearray = SymByteArray
mf.ord = sym_ord

def eqmsg(a, b):
    if type(a) != type(b) or a.type != b.type: return False
    va, vb = vars(a), vars(b)
    if set(va) != set(vb): return False
    c = True
    for k in va:
        x, y = va[k], vb[k]
        if isinstance(x, tuple) or isinstance(x, list):
            if len(x) != len(y): return False
            pairs = zip(x, y)
        else: pairs = [(x, y)]
        for p, q in pairs:
            if isinstance(p, SymInt) or isinstance(q, SymInt):
                t = (p == q); c = t if c is True else (c & t)
            elif p != q: return False
    return c

def h(cx):
    R = 2**28
    m1 = Message('note_on', channel=cx.fresh_int('c1',0,15), note=cx.fresh_int('n1',0,127), velocity=cx.fresh_int('v1',0,127), time=cx.fresh_int('t1',0,R))
    m2 = Message('control_change', channel=cx.fresh_int('c2',0,15), control=cx.fresh_int('n2',0,127), value=cx.fresh_int('v2',0,127), time=cx.fresh_int('t2',0,R))
    m3 = MetaMessage('set_tempo', tempo=cx.fresh_int('tempo',0,2**24-1), time=cx.fresh_int('t3',0,R))
    m4 = Message('sysex', data=[cx.fresh_int('d0',0,127), cx.fresh_int('d1',0,127)], time=cx.fresh_int('t4',0,R))
    m5 = Message('pitchwheel', channel=cx.fresh_int('c5',0,15), pitch=cx.fresh_int('p5',-8192,8191), time=cx.fresh_int('t5',0,R))
    tr = MidiTrack([m1, m2, m3, m4, m5])
    f = MidiFile(type=1, ticks_per_beat=480, tracks=[tr])
    out = SymFile(); f.save(file=out)
    g = MidiFile(file=SymFile(out.data))
    t2 = g.tracks[0]
    if len(t2) != 6: cx.check(False, 'len %d' % len(t2)); return
    for a, b in zip(tr, t2):
        cx.check(eqmsg(a, b), 'msg eq %s' % a.type)
ex = Explorer(); t = time.time(); st = ex.explore(h)
print('file', st, round(time.time()-t,2), ex.violations[:4])
