import time, sys
import pysym2 as ps, z3
from pysym2 import Explorer, SymInt, SymBool, LookupProxy
import mido
from mido.midifiles import meta
from mido.midifiles.meta import MetaMessage, encode_variable_int

class SymList:
    """concrete head + symbolic-length tail of a fill value; tail unfolds lazily"""
    def __init__(self, head, tail, fill):
        self.head = list(head); self.tail = tail; self.fill = fill
    def _unfold_to(self, n):
        while len(self.head) < n:
            if self.tail > 0:
                self.head.append(self.fill); self.tail = self.tail - 1
            else:
                return False
        return True
    def __getitem__(self, i):
        if isinstance(i, slice):
            start, stop = i.start or 0, i.stop
            assert i.step is None and start >= 0
            if stop is None:
                self._unfold_to(start)
                return SymList(self.head[start:], self.tail, self.fill) if len(self.head) >= start else SymList([], 0, self.fill)
            self._unfold_to(stop)
            return self.head[start:stop]
        if not self._unfold_to(i + 1): raise IndexError
        return self.head[i]
    def sym_len(self):
        return len(self.head) + self.tail
_len = len
def sym_len(x):
    return x.sym_len() if isinstance(x, SymList) else _len(x)
meta.len = sym_len
captured = []
meta.build_meta_message = lambda t, data, delta=0: captured.append((t, data)) or ('built', t, data)

def h(cx):
    n = cx.fresh_int('n', 0, 2**21)
    vlq = encode_variable_int(n)          # real encoder on the symbolic length
    msg = SymList([0xff, 0x01] + vlq, n, 0x41)
    try:
        r = MetaMessage.from_bytes(msg)
    except ValueError as e:
        cx.check(False, 'rejected well-formed message: %s' % e); return
    _, t, data = r
    cx.check(sym_len(data) == n, 'payload length')
    # payload must start right after the vlq
    off = (2 + len(vlq) + n) - sym_len(data)
    cx.check(off == 2 + len(vlq), 'payload offset')
ex = Explorer(); t = time.time(); st = ex.explore(h)
print('meta framing', {k: st[k] for k in ('paths','queries','forks','violations')}, round(time.time()-t,2), ex.violations[:4])
