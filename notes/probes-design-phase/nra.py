import z3, time
from fractions import Fraction
u = z3.RealVal(Fraction(1, 2**53))
c = z3.RealVal(Fraction(1e-6))
t, tempo, tpb = z3.Ints('t tempo tpb')
d = [z3.Real(f'd{i}') for i in range(5)]
s = z3.Solver(); s.set('timeout', 60000)
s.add(t >= 0, t < 2**31, tempo >= 1, tempo < 2**24, tpb >= 1, tpb < 2**15)
for x in d: s.add(x >= -u, x <= u)
scale = (z3.ToReal(tempo)*c*(1+d[0])/z3.ToReal(tpb))*(1+d[1])
sec = z3.ToReal(t)*scale*(1+d[2])
q = sec/scale*(1+d[3])
r = z3.Int('r')
s.add(z3.ToReal(r) - q <= z3.RealVal('1/2'), q - z3.ToReal(r) <= z3.RealVal('1/2'))
s.add(r != t)
t0=time.time(); print(s.check(), round(time.time()-t0,2))
